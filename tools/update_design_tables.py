#!/usr/bin/env python3
"""Replace the two detection tables of DESIGN.md section 12 by the output of tools/detection_table.py."""
import os
import subprocess
import sys

V = os.path.dirname(os.path.dirname(os.path.abspath(__file__)))
p = os.path.join(V, "DESIGN.md")
s = open(p).read()
a = s.index("### Own sensitivity mutants (`selftest/mutants/<prop>/<name>.patch`)")
b = s.index("---------------------------------------------------------------------------\n\n## 13.")
tables = subprocess.run([sys.executable, os.path.join(V, "tools/detection_table.py")], capture_output=True,
                        text=True, check=True).stdout
open(p, "w").write(s[:a] + tables.rstrip("\n") + "\n\n\n" + s[b:])
print("tables updated:", tables.count("\n"), "lines")

#!/usr/bin/env python3
"""Print the 'which checks catch which changes' tables (markdown) from selftest/results.json,
selftest/suite_results.json and seeded/*/meta.json."""
import glob
import json
import os

V = os.path.dirname(os.path.dirname(os.path.abspath(__file__)))
res = json.load(open(os.path.join(V, "selftest/results.json")))
suite = json.load(open(os.path.join(V, "selftest/suite_results.json")))
print("### Own sensitivity mutants (`selftest/mutants/<prop>/<name>.patch`)\n")
print("| Check | Mutant | Repo's own tests | Verdict | First signatures | Needs |")
print("|---|---|---|---|---|---|")
for k in sorted(res):
    r = res[k]
    prop, name = k.split("/")
    s = (suite.get(k, {}).get("summary") or ["?"])[0]
    s = "pass" if "failed" not in s and "passed" in s else s.split(",")[0]
    v = r["verdict"] + (" (control: equivalent edit, must NOT be flagged)" if r.get("control") else "")
    sig = "; ".join(x.replace("oracle=", "").split(" sig=")[-1] for x in r["signatures"][:2])
    print("| %s | %s | %s | %s | `%s` | %s |" % (prop, name, s, v, sig, r.get("note", "")))
print("\n### Independently written changes (`seeded/<id>/`: patch.diff, demo.py, notes.md, meta.json)\n")
print("| Id | Confirmed (demo fails with / passes without, suite passes) | Quick check | Signatures | Runs needed |")
print("|---|---|---|---|---|")
for f in sorted(glob.glob(os.path.join(V, "seeded/*/meta.json"))):
    m = json.load(open(f))
    sid = os.path.basename(os.path.dirname(f))
    runs = m["check_runs"]
    last = runs[-1]
    sig = "; ".join(x.split(" sig=")[-1] for x in last.get("signatures", [])[:2])
    hist = " -> ".join(r["verdict"] for r in runs)
    verdict = last["verdict"]
    if m.get("also_caught_by"):
        verdict += " (caught by %s)" % ", ".join(m["also_caught_by"])
    print("| %s | %s | %s | `%s` | %s |" % (sid, m["confirmation"].get("confirmed"), verdict, sig, hist))

#!/usr/bin/env python3
"""Regenerate /verif/MANIFEST.json from the table below (single source of truth)."""
import json, os, sys

HERE = os.path.dirname(os.path.dirname(os.path.abspath(__file__)))

NA = {
 "C02": "Pure function of (source, data, mode): escaping exception classes come from value conversion, not from a schedule, clock, I/O fault or history; nothing for a simulator to own.",
 "C03": "Pure function of (source, data, mode); the only stateful ingredient is Python's warnings registry, which is pinned rather than explored.",
 "C04": "Pure function of the parsed template (str(template) round trip); no schedule, clock, fault or history.",
 "C05": "Pure function of (template, data); safe/unsafe marking travels in values, not in shared or timed state.",
 "C06": "Pure function of (template, data, limit); the loop stack lives and dies inside one render context.",
 "C07": "Pure function of (template, data, limit); sweeping a configured limit is input enumeration, not fault injection.",
 "C08": "Monotonicity over a configuration value of a pure function; its only history-shaped consequence (an aborted render leaves nothing behind) is exercised inside C17 histories.",
 "C09": "Termination of a pure function over inputs; no fault after which progress must resume and no scheduler that could starve it.",
 "C10": "Pure lexing function of the source text.",
 "C12": "Pure function of operand values and operator tree.",
 "C13": "Pure function of (collection, limit, offset, reversed); offset:continue state lives inside one render context (leakage between renders is in C17's workload).",
 "C14": "Pure function of the scope chain; the property is about precedence, not time.",
 "C15": "Isolation between scopes of one render, a pure function of (caller, partial, data); not between concurrent or successive executions.",
 "C16": "Pure relation between two configurations of a pure function.",
 "C18": "Pure function of the template chain and data; block stacks live in one render context.",
 "C19": "Static-vs-dynamic comparison over programs and inputs; needs a trace hook but no schedule, clock, fault or history (the async analysis twin is compared under C01).",
 "C20": "Pure function of the source text.",
 "C21": "Pure function of the token sequence.",
 "C25": "Pure functions of their arguments.",
 "C26": "Pure function of message text and arguments.",
 "C27": "Pure function of the call site and macro signature.",
}

CHECKS = []  # filled in by checks/registry.py as checks come on line


def main():
    sys.path.insert(0, HERE)
    try:
        from checks.registry import CHECKS as reg
    except Exception:
        reg = []
    man = {
        "version": 1,
        "setup_cmd": "./setup.sh",
        "hooks": {
            "guard": "LIQUID_VERIF",
            "enable": "none needed: every seam is reached by replacing a module global or installing a loop/trace function from /verif; liquid is imported from /repo's working tree via PYTHONPATH=/repo (no build step)",
            "baseline_off_cmd": "cd /repo && /venv/bin/python -m pytest -ra -q -p no:cacheprovider --timeout=900 --continue-on-collection-errors",
            "source_commits": [],
            "add_only": True,
        },
        "engines": [
            {"name": "simkit", "path": "simkit/", "serves_properties": [c["property_id"] for c in reg],
             "kind_free_text": "deterministic simulation kit: seeded PRNG streams, virtual-time asyncio loop with inline seeded executor, baton-passed real threads with line- and instruction-level pre-emption (settrace / sys.monitoring) and simulated Lock, simulated wall clock and tmpfs storage with fault plans, companion process and pristine-fork reference, delta-debugging minimiser incl. process-history preludes, replay files"},
        ],
        "checks": reg,
        "not_applicable": [{"property_id": k, "reason": v} for k, v in sorted(NA.items())],
        "notes": "Technique family: deterministic simulation with fault injection. See DESIGN.md. Exit 2 from a check means a harness problem (nondeterminism, timeout), never a property verdict.",
    }
    with open(os.path.join(HERE, "MANIFEST.json"), "w") as f:
        json.dump(man, f, indent=1)
        f.write("\n")


if __name__ == "__main__":
    main()

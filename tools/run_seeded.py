#!/usr/bin/env python3
"""Confirm and run independently written breaking changes.

For each /tmp/seeds/<PROP>/<N>/ (patch.diff, demo.py, notes.md written by a
sub-agent that saw only the property text and its own worktree):
  1. in the sub-agent's worktree /tmp/wt-<PROP>: demo passes on the clean tree, fails with the
     patch, and the repository's own test suite still passes with the patch (my own confirmation);
  2. the property's quick check is run against a scratch copy of /repo/liquid with the patch
     applied (VERIF_REPO), /repo itself is never modified;
  3. everything is recorded in /verif/seeded/<PROP>-<N>/meta.json.
usage: tools/run_seeded.py [PROP[-N] ...] [--budget S] [--skip-confirm]
"""
import json
import os
import shutil
import subprocess
import sys
import tempfile
import time

VERIF = os.path.dirname(os.path.dirname(os.path.abspath(__file__)))
SEEDS = "/tmp/seeds"
WT_PREFIX = "/tmp/wt-"
TAG = ""


def sh(cmd, cwd=None, env=None, timeout=1800):
    p = subprocess.run(cmd, cwd=cwd, env=env, capture_output=True, text=True, timeout=timeout)
    return p.returncode, p.stdout, p.stderr


def confirm(prop, n, src):
    wt = "%s%s" % (WT_PREFIX, prop)
    out = {}
    if not os.path.isdir(wt):
        return {"skipped": "worktree gone"}
    sh(["git", "checkout", "--", "."], cwd=wt)
    rc, o, e = sh(["/venv/bin/python", os.path.join(src, "demo.py")], cwd=wt)
    out["demo_clean_exit"] = rc
    rc, o, e = sh(["git", "apply", os.path.join(src, "patch.diff")], cwd=wt)
    out["patch_applies"] = rc == 0
    rc, o, e = sh(["/venv/bin/python", os.path.join(src, "demo.py")], cwd=wt)
    out["demo_patched_exit"] = rc
    out["demo_patched_tail"] = (o + e)[-400:]
    rc, o, e = sh(["/venv/bin/python", "-m", "pytest", "-q", "-p", "no:cacheprovider", "--ignore",
                   "tests/test_compliance.py", "tests"], cwd=wt)
    out["suite_with_patch"] = ([ln for ln in o.splitlines() if " passed" in ln or " failed" in ln] or ["?"])[-1]
    sh(["git", "checkout", "--", "."], cwd=wt)
    shutil.rmtree(os.path.join(wt, ".hypothesis"), ignore_errors=True)
    out["confirmed"] = (out["demo_clean_exit"] == 0 and out["patch_applies"] and out["demo_patched_exit"] != 0
                        and "failed" not in out["suite_with_patch"] and "passed" in out["suite_with_patch"])
    return out


def run_check(prop, src, budget, tier="quick", seed=None):
    d = tempfile.mkdtemp(prefix="lv-seed-", dir="/dev/shm" if os.path.isdir("/dev/shm") else None)
    try:
        shutil.copytree("/repo/liquid", os.path.join(d, "liquid"), ignore=shutil.ignore_patterns("__pycache__"))
        sh(["git", "init", "-q"], cwd=d)
        rc, o, e = sh(["git", "apply", os.path.join(src, "patch.diff")], cwd=d)
        if rc != 0:
            return {"verdict": "patch-does-not-apply-to-current-repo", "detail": e[-300:]}
        env = dict(os.environ, VERIF_REPO=d)
        if seed is not None:
            env["VERIF_SEED"] = str(seed)
        t0 = time.time()
        cmd = [os.path.join(VERIF, "check"), prop, "--tier", tier, "--no-evidence"]
        if budget:
            cmd += ["--budget", str(budget)]
        rc, o, e = sh(cmd, env=env, timeout=7200)
        sigs = [ln.strip() for ln in o.splitlines() if ln.strip().startswith("oracle=")]
        viol = [ln for ln in o.splitlines() if ln.startswith("VIOLATION")]
        verdict = "caught" if rc == 1 and viol else ("harness" if rc == 2 else "missed")
        last = [ln for ln in o.splitlines() if ln.startswith("[%s] runs=" % prop)][-1:]
        res = {"verdict": verdict, "exit": rc, "wall_s": round(time.time() - t0, 1), "signatures": sigs[:6],
               "summary": last, "command": " ".join(cmd) + "  (VERIF_REPO=<scratch copy of /repo/liquid + patch>)"}
        if verdict == "harness":
            res["tail"] = (o + e)[-1500:]
        return res
    finally:
        shutil.rmtree(d, ignore_errors=True)


def main():
    global SEEDS, WT_PREFIX, TAG
    args = [a for a in sys.argv[1:] if not a.startswith("--")]
    budget = None
    tier = "quick"
    consumed = []
    for i, a in enumerate(sys.argv):
        if a == "--budget":
            budget = sys.argv[i + 1]
            consumed.append(budget)
        if a == "--tier":
            tier = sys.argv[i + 1]
            consumed.append(tier)
        if a == "--seeds":
            SEEDS = sys.argv[i + 1]
            consumed.append(SEEDS)
        if a == "--wt-prefix":
            WT_PREFIX = sys.argv[i + 1]
            consumed.append(WT_PREFIX)
        if a == "--tag":
            TAG = sys.argv[i + 1]
            consumed.append(TAG)
    args = [a for a in args if a not in consumed]
    todo = []
    for prop in sorted(os.listdir(SEEDS)):
        for n in sorted(os.listdir(os.path.join(SEEDS, prop))):
            src = os.path.join(SEEDS, prop, n)
            if os.path.isdir(src) and os.path.exists(os.path.join(src, "patch.diff")):
                if not args or prop in args or "%s-%s" % (prop, n) in args:
                    todo.append((prop, n, src))
    for prop, n, src in todo:
        dst = os.path.join(VERIF, "seeded", "%s-%s%s" % (prop, TAG + "-" if TAG else "", n))
        os.makedirs(dst, exist_ok=True)
        for f in ("patch.diff", "demo.py", "notes.md"):
            if os.path.exists(os.path.join(src, f)):
                shutil.copy(os.path.join(src, f), os.path.join(dst, f))
        meta_path = os.path.join(dst, "meta.json")
        try:
            meta = json.load(open(meta_path))
        except Exception:
            meta = {"property": prop, "origin": "sub-agent given only the property text and a scratch worktree of /repo"}
        notes = open(os.path.join(src, "notes.md")).read() if os.path.exists(os.path.join(src, "notes.md")) else ""
        meta["needs_to_manifest"] = notes[:1500]
        if "--skip-confirm" not in sys.argv or "confirmation" not in meta:
            meta["confirmation"] = confirm(prop, n, src)
        r = run_check(prop, src, budget, tier)
        meta.setdefault("check_runs", []).append(r)
        meta["caught_by"] = prop if any(x["verdict"] == "caught" for x in meta["check_runs"]) else None
        json.dump(meta, open(meta_path, "w"), indent=1)
        print("%s-%s confirmed=%s %s %s" % (prop, n, meta["confirmation"].get("confirmed"), r["verdict"],
                                            "; ".join(r.get("signatures", [])[:2])), flush=True)


if __name__ == "__main__":
    main()

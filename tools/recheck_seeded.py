#!/usr/bin/env python3
"""Re-run the quick check of every stored seeded change (seeded/<id>/patch.diff) against a scratch
copy of /repo/liquid with the patch applied, and append the verdict to its meta.json.
usage: tools/recheck_seeded.py [ID-substring ...]   (VERIF_PROCS limits the workers of each check)"""
import json
import os
import sys

sys.path.insert(0, os.path.dirname(os.path.abspath(__file__)))
import run_seeded as R  # noqa: E402

VERIF = R.VERIF


def main():
    pats = [a for a in sys.argv[1:] if not a.startswith("--")]
    for d in sorted(os.listdir(os.path.join(VERIF, "seeded"))):
        src = os.path.join(VERIF, "seeded", d)
        if not os.path.exists(os.path.join(src, "patch.diff")):
            continue
        if pats and not any(p in d for p in pats):
            continue
        meta_path = os.path.join(src, "meta.json")
        meta = json.load(open(meta_path))
        prop = meta.get("caught_by") or meta["property"]
        r = R.run_check(prop, src, None)
        r["recheck"] = True
        meta.setdefault("check_runs", []).append(r)
        if r["verdict"] == "caught":
            meta["caught_by"] = prop
        meta["last_verdict"] = r["verdict"]
        json.dump(meta, open(meta_path, "w"), indent=1)
        print("%s %s %s" % (d, r["verdict"], "; ".join(r.get("signatures", [])[:2])), flush=True)


if __name__ == "__main__":
    main()

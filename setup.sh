#!/bin/sh
# Offline setup: nothing is fetched or built. Verify that the interpreter the
# checks use can import liquid from /repo's working tree and its dependencies.
set -e
cd "$(dirname "$0")"
mkdir -p evidence replays
PYTHONPATH=/repo:/verif exec /venv/bin/python -B -c "
import sys
import liquid, markupsafe, dateutil, babel, pytz
assert liquid.__file__.startswith('/repo/'), liquid.__file__
import simkit
print('setup ok: liquid', liquid.__version__, 'python', sys.version.split()[0])
"

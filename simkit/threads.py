"""SimThreads: real threads, one at a time, under a seeded baton scheduler.

Every simulated client is a real ``threading.Thread``.  Exactly one thread
holds the baton; all others are parked on their own semaphore.  The choice of
who runs next is made by the seeded ``sched`` stream at *pre-emption points*:

* every ``line`` trace event in a code object whose file is in ``trace_files``
  (installed with ``sys.settrace`` in each simulated thread),
* every ``SimLock.acquire`` / ``release``,
* every explicit ``sim.point(site)`` in client code (operation boundaries and
  between ``next()`` calls of a listing).

The choice of who runs is never real, so a run is a pure function of the seed.
"""
from __future__ import annotations

import sys
import threading


# -- opcode-level pre-emption ----------------------------------------------------
# sys.settrace with frame.f_trace_opcodes crashes CPython 3.12.1 when several threads are
# parked inside the traced code (the code objects are re-instrumented while they execute).
# sys.monitoring lets the coordinating thread instrument every code object of the traced
# files ONCE, before any simulated thread starts, and remove the instrumentation after
# they have all been joined.

_TOOL = 4
_SIM_THREADS = {}     # thread ident -> SimThreads (only simulated client threads)


def _codes_of_files(suffixes):
    import types
    out, seen = [], set()

    def add_code(co):
        if id(co) in seen:
            return
        seen.add(id(co))
        if any(co.co_filename.endswith(s) for s in suffixes):
            out.append(co)
        for c in co.co_consts:
            if isinstance(c, types.CodeType):
                add_code(c)

    def add_obj(o, depth=0):
        if isinstance(o, (staticmethod, classmethod)):
            o = o.__func__
        if isinstance(o, property):
            for f in (o.fget, o.fset, o.fdel):
                if f is not None:
                    add_obj(f, depth)
            return
        co = getattr(o, "__code__", None)
        if isinstance(co, types.CodeType):
            add_code(co)
            return
        w = getattr(o, "__wrapped__", None)
        if w is not None and depth < 3:
            add_obj(w, depth + 1)
        if isinstance(o, type) and depth < 2:
            for v in list(vars(o).values()):
                add_obj(v, depth + 1)

    for name in sorted(sys.modules):
        m = sys.modules[name]
        f = getattr(m, "__file__", None)
        if not f or not any(f.endswith(s) for s in suffixes):
            continue
        for v in list(vars(m).values()):
            if getattr(v, "__module__", None) == m.__name__:
                add_obj(v)
    return out


def _instruction_event(code, offset):
    sim = _SIM_THREADS.get(threading.get_ident())
    if sim is not None and sim.cur is not None and sim.cur.thread is threading.current_thread():
        sim.point("op:%s:%d" % (code.co_name, offset))


def _instrument(sim, suffixes):
    mon = sys.monitoring
    codes = _codes_of_files(suffixes)
    if mon.get_tool(_TOOL) is None:
        mon.use_tool_id(_TOOL, "simkit")
    mon.register_callback(_TOOL, mon.events.INSTRUCTION, _instruction_event)
    for co in codes:
        mon.set_local_events(_TOOL, co, mon.events.INSTRUCTION)
    return codes


def _uninstrument(codes):
    mon = sys.monitoring
    for co in codes:
        mon.set_local_events(_TOOL, co, 0)
    mon.register_callback(_TOOL, mon.events.INSTRUCTION, None)
    mon.free_tool_id(_TOOL)
    _SIM_THREADS.clear()


class SimSelfDeadlock(RuntimeError):
    """A single caller tried to take a (non re-entrant) lock that is still held: with a real
    lock it would hang for ever."""


class SimAbort(BaseException):
    """Raised inside simulated threads to unwind them (deadlock / step cap)."""


class SimThreads:
    def __init__(self, rng, switch_p=0.3, trace_files=(), step_cap=20000, on_point=None,
                 granularity="line"):
        self.rng = rng
        # "line": pre-empt at Python line boundaries of traced files; "opcode": at every
        # bytecode instruction of traced files (what the GIL really allows: a thread can
        # lose the interpreter between any two instructions, also in the middle of a line)
        self.granularity = granularity
        self.switch_p = switch_p
        self.trace_files = tuple(trace_files)
        self.step_cap = step_cap
        self.on_point = on_point      # callback(sim, site) at every pre-emption point
        self.threads = []             # _T objects
        self.cur = None
        self.seq = 0                  # global event sequence number
        self.steps = 0
        self.switches = 0
        self.trace = []               # sequence of thread ids at switches
        self.aborted = None           # None | "DEADLOCK" | "STEP-CAP"
        self.contended = 0
        self._main_sem = threading.Semaphore(0)
        self._code_cache = {}

    # -- construction --------------------------------------------------------
    def spawn(self, name, fn):
        t = _T(self, len(self.threads), name, fn)
        self.threads.append(t)
        return t

    def next_seq(self):
        self.seq += 1
        return self.seq

    # -- running ---------------------------------------------------------------
    def run(self):
        codes = []
        if self.trace_files and self.granularity == "opcode":
            codes = _instrument(self, self.trace_files)
        try:
            for t in self.threads:
                t.thread.start()
            first = self._pick()
            self.cur = first
            self.trace.append(first.tid)
            first.sem.release()
            self._main_sem.acquire()      # released when everything is finished/aborted
            for t in self.threads:
                t.thread.join(30)
                if t.thread.is_alive():
                    raise RuntimeError("SimThreads: thread failed to terminate")
        finally:
            if codes:
                _uninstrument(codes)

    def _runnable(self):
        return [t for t in self.threads if t.state == "run"]

    def _pick(self, me=None):
        r = self._runnable()
        if not r:
            return None
        rng = me.rng if me is not None else self.rng
        return r[rng.randrange(len(r))] if len(r) > 1 else r[0]

    def _abort(self, why):
        if self.aborted is None:
            self.aborted = why
        for t in self.threads:
            if t.state != "done":
                t.sem.release()

    def _switch_from(self, me, must):
        """Called by the baton holder.  Maybe hand the baton to someone else."""
        if self.aborted:
            raise SimAbort()
        self.steps += 1
        if self.steps > self.step_cap:
            self._abort("STEP-CAP")
            raise SimAbort()
        if must:
            nxt = self._pick(me)
            if nxt is None:
                # nobody can run while `me` is blocked or finished
                if all(t.state == "done" for t in self.threads):
                    self._main_sem.release()
                    return
                self._abort("DEADLOCK")
                self._main_sem.release()
                if me.state != "done":
                    raise SimAbort()
                return
        else:
            r = self._runnable()
            if len(r) <= 1 or not me.rng.chance(self.switch_p):
                return
            nxt = r[me.rng.randrange(len(r))]
            if nxt is me:
                return
        self.switches += 1
        self.trace.append(nxt.tid)
        self.cur = nxt
        nxt.sem.release()
        if me.state != "done":
            me.sem.acquire()
            if self.aborted:
                raise SimAbort()

    def point(self, site=""):
        """Pre-emption point in the current simulated thread."""
        me = self.cur
        if self.on_point is not None:
            self.on_point(self, site)
        self._switch_from(me, must=False)

    # -- tracing ---------------------------------------------------------------
    def _global_trace(self, frame, event, arg):
        code = frame.f_code
        hit = self._code_cache.get(code)
        if hit is None:
            fn = code.co_filename
            hit = any(fn.endswith(s) for s in self.trace_files)
            self._code_cache[code] = hit
        return self._local_trace if hit else None

    def _local_trace(self, frame, event, arg):
        if event == "line":
            self.point("line:%d" % frame.f_lineno)
        return self._local_trace



class _T:
    def __init__(self, sim, tid, name, fn):
        self.sim = sim
        self.tid = tid
        self.name = name
        self.fn = fn
        self.state = "run"            # run | blocked | done
        # one decision stream per thread, keyed by its stable name: removing an
        # op or a thread while minimising leaves the other threads' choices alone
        self.rng = sim.rng.fork("thread", name)
        self.sem = threading.Semaphore(0)
        self.error = None
        self.thread = threading.Thread(target=self._main, name=name, daemon=True)

    def _main(self):
        sim = self.sim
        self.sem.acquire()
        try:
            if sim.aborted:
                return
            opcode = sim.granularity == "opcode"
            if sim.trace_files and not opcode:
                sys.settrace(sim._global_trace)
            elif opcode:
                _SIM_THREADS[threading.get_ident()] = sim
            try:
                self.fn()
            finally:
                if opcode:
                    _SIM_THREADS.pop(threading.get_ident(), None)
                else:
                    sys.settrace(None)
        except SimAbort:
            pass
        except BaseException as e:  # harness-level: client code must catch SUT errors
            self.error = e
        finally:
            self.state = "done"
            if sim.aborted:
                if all(t.state == "done" for t in sim.threads):
                    pass
                sim._main_sem.release()
            else:
                try:
                    sim._switch_from(self, must=True)
                except SimAbort:
                    pass


class SimLock:
    """Drop-in for ``threading.Lock`` inside the simulation."""

    sim: SimThreads = None  # set per run by the check (class attribute seam)

    def __init__(self):
        self.owner = None
        self.waiters = []

    def acquire(self, blocking=True, timeout=-1):
        sim = SimLock.sim
        if sim is None or sim.cur is None:
            # outside a simulation (e.g. module import): behave like an uncontended lock
            if self.owner is not None:
                raise SimSelfDeadlock("lock acquired while it is still held (never released by an earlier operation)")
            self.owner = "outside"
            return True
        me = sim.cur
        sim.point("lock.acquire")
        contended = False
        while self.owner is not None:
            if self.owner is me:
                # threading.Lock is not re-entrant: a real deadlock
                pass
            if not blocking:
                return False
            contended = True
            me.state = "blocked"
            self.waiters.append(me)
            sim._switch_from(me, must=True)
        if contended:
            sim.contended += 1
        self.owner = me
        return True

    def release(self):
        sim = SimLock.sim
        if self.owner is None:
            raise RuntimeError("release unlocked lock")
        self.owner = None
        for w in self.waiters:
            w.state = "run"
        self.waiters = []
        if sim is not None and sim.cur is not None:
            sim.point("lock.release")

    def locked(self):
        return self.owner is not None

    def __enter__(self):
        self.acquire()
        return self

    def __exit__(self, *exc):
        # never pre-empt with an exception in flight differently: same path
        self.release()
        return False


class SimRLock(SimLock):
    """Re-entrant variant (stands in for threading.RLock)."""

    def __init__(self):
        super().__init__()
        self.count = 0

    def acquire(self, blocking=True, timeout=-1):
        sim = SimLock.sim
        me = sim.cur if sim is not None and sim.cur is not None else "outside"
        if self.owner is me and self.owner is not None:
            self.count += 1
            return True
        ok = super().acquire(blocking, timeout)
        if ok:
            self.count = 1
        return ok

    def release(self):
        if self.count > 1:
            self.count -= 1
            return
        self.count = 0
        super().release()


_REAL_LOCK = type(threading.Lock())
_REAL_RLOCK = type(threading.RLock())


def simulate_locks(obj):
    """Replace every real lock reachable as an attribute of `obj` or of its classes by a simulated one
    (same sharing: a lock kept on a class stays one lock for all instances).  Returns what to pass to
    restore_locks().  Code under test that creates its lock at import time, or keeps it on the class,
    would otherwise block a baton-holding thread for real."""
    undo = []
    holders = [obj] + [k for k in type(obj).__mro__ if k is not object]
    for h in holders:
        try:
            items = list(vars(h).items())
        except TypeError:
            continue
        for name, val in items:
            new = SimRLock() if isinstance(val, _REAL_RLOCK) else SimLock() if isinstance(val, _REAL_LOCK) else None
            if new is not None:
                try:
                    setattr(h, name, new)
                    undo.append((h, name, val))
                except (AttributeError, TypeError):
                    pass
    return undo


def restore_locks(undo):
    for h, name, val in undo:
        try:
            setattr(h, name, val)
        except (AttributeError, TypeError):
            pass


class SimCondition:
    """Stands in for threading.Condition inside the simulation (wait / notify / notify_all on a
    simulated lock).  A waiter that is never notified leaves no runnable thread in the end: DEADLOCK."""

    def __init__(self, lock=None):
        self._lock = lock if lock is not None else SimRLock()
        self._waiters = []
        self.acquire = self._lock.acquire
        self.release = self._lock.release

    def __enter__(self):
        self._lock.acquire()
        return self

    def __exit__(self, *exc):
        self._lock.release()
        return False

    def wait(self, timeout=None):
        sim = SimLock.sim
        if sim is None or sim.cur is None:
            raise SimSelfDeadlock("Condition.wait() with nobody who could notify")
        me = sim.cur
        count = getattr(self._lock, "count", 1)
        if hasattr(self._lock, "count"):
            self._lock.count = 1
        self._lock.release()
        self._waiters.append(me)
        me.state = "blocked"
        sim._switch_from(me, must=True)          # returns when somebody has notified us and we were scheduled
        self._lock.acquire()
        if hasattr(self._lock, "count"):
            self._lock.count = count
        return True

    def wait_for(self, predicate, timeout=None):
        while not predicate():
            self.wait()
        return True

    def notify(self, n=1):
        for _ in range(n):
            if not self._waiters:
                break
            w = self._waiters.pop(0)
            w.state = "run"

    def notify_all(self):
        self.notify(len(self._waiters))

    notifyAll = notify_all

"""SimThreads: real threads, one at a time, under a seeded baton scheduler.

Every simulated client is a real ``threading.Thread``.  Exactly one thread
holds the baton; all others are parked on their own semaphore.  The choice of
who runs next is made by the seeded ``sched`` stream at *pre-emption points*:

* every ``line`` trace event in a code object whose file is in ``trace_files``
  (installed with ``sys.settrace`` in each simulated thread),
* every ``SimLock.acquire`` / ``release``,
* every explicit ``sim.point(site)`` in client code (operation boundaries and
  between ``next()`` calls of a listing).

The choice of who runs is never real, so a run is a pure function of the seed.
"""
from __future__ import annotations

import sys
import threading


class SimAbort(BaseException):
    """Raised inside simulated threads to unwind them (deadlock / step cap)."""


class SimThreads:
    def __init__(self, rng, switch_p=0.3, trace_files=(), step_cap=20000, on_point=None):
        self.rng = rng
        self.switch_p = switch_p
        self.trace_files = tuple(trace_files)
        self.step_cap = step_cap
        self.on_point = on_point      # callback(sim, site) at every pre-emption point
        self.threads = []             # _T objects
        self.cur = None
        self.seq = 0                  # global event sequence number
        self.steps = 0
        self.switches = 0
        self.trace = []               # sequence of thread ids at switches
        self.aborted = None           # None | "DEADLOCK" | "STEP-CAP"
        self.contended = 0
        self._main_sem = threading.Semaphore(0)
        self._code_cache = {}

    # -- construction --------------------------------------------------------
    def spawn(self, name, fn):
        t = _T(self, len(self.threads), name, fn)
        self.threads.append(t)
        return t

    def next_seq(self):
        self.seq += 1
        return self.seq

    # -- running ---------------------------------------------------------------
    def run(self):
        for t in self.threads:
            t.thread.start()
        first = self._pick()
        self.cur = first
        self.trace.append(first.tid)
        first.sem.release()
        self._main_sem.acquire()      # released when everything is finished/aborted
        for t in self.threads:
            t.thread.join(30)
            if t.thread.is_alive():
                raise RuntimeError("SimThreads: thread failed to terminate")

    def _runnable(self):
        return [t for t in self.threads if t.state == "run"]

    def _pick(self, me=None):
        r = self._runnable()
        if not r:
            return None
        rng = me.rng if me is not None else self.rng
        return r[rng.randrange(len(r))] if len(r) > 1 else r[0]

    def _abort(self, why):
        if self.aborted is None:
            self.aborted = why
        for t in self.threads:
            if t.state != "done":
                t.sem.release()

    def _switch_from(self, me, must):
        """Called by the baton holder.  Maybe hand the baton to someone else."""
        if self.aborted:
            raise SimAbort()
        self.steps += 1
        if self.steps > self.step_cap:
            self._abort("STEP-CAP")
            raise SimAbort()
        if must:
            nxt = self._pick(me)
            if nxt is None:
                # nobody can run while `me` is blocked or finished
                if all(t.state == "done" for t in self.threads):
                    self._main_sem.release()
                    return
                self._abort("DEADLOCK")
                self._main_sem.release()
                if me.state != "done":
                    raise SimAbort()
                return
        else:
            r = self._runnable()
            if len(r) <= 1 or not me.rng.chance(self.switch_p):
                return
            nxt = r[me.rng.randrange(len(r))]
            if nxt is me:
                return
        self.switches += 1
        self.trace.append(nxt.tid)
        self.cur = nxt
        nxt.sem.release()
        if me.state != "done":
            me.sem.acquire()
            if self.aborted:
                raise SimAbort()

    def point(self, site=""):
        """Pre-emption point in the current simulated thread."""
        me = self.cur
        if self.on_point is not None:
            self.on_point(self, site)
        self._switch_from(me, must=False)

    # -- tracing ---------------------------------------------------------------
    def _global_trace(self, frame, event, arg):
        code = frame.f_code
        hit = self._code_cache.get(code)
        if hit is None:
            fn = code.co_filename
            hit = any(fn.endswith(s) for s in self.trace_files)
            self._code_cache[code] = hit
        return self._local_trace if hit else None

    def _local_trace(self, frame, event, arg):
        if event == "line":
            self.point("line:%d" % frame.f_lineno)
        return self._local_trace


class _T:
    def __init__(self, sim, tid, name, fn):
        self.sim = sim
        self.tid = tid
        self.name = name
        self.fn = fn
        self.state = "run"            # run | blocked | done
        # one decision stream per thread, keyed by its stable name: removing an
        # op or a thread while minimising leaves the other threads' choices alone
        self.rng = sim.rng.fork("thread", name)
        self.sem = threading.Semaphore(0)
        self.error = None
        self.thread = threading.Thread(target=self._main, name=name, daemon=True)

    def _main(self):
        sim = self.sim
        self.sem.acquire()
        try:
            if sim.aborted:
                return
            if sim.trace_files:
                sys.settrace(sim._global_trace)
            try:
                self.fn()
            finally:
                sys.settrace(None)
        except SimAbort:
            pass
        except BaseException as e:  # harness-level: client code must catch SUT errors
            self.error = e
        finally:
            self.state = "done"
            if sim.aborted:
                if all(t.state == "done" for t in sim.threads):
                    pass
                sim._main_sem.release()
            else:
                try:
                    sim._switch_from(self, must=True)
                except SimAbort:
                    pass


class SimLock:
    """Drop-in for ``threading.Lock`` inside the simulation."""

    sim: SimThreads = None  # set per run by the check (class attribute seam)

    def __init__(self):
        self.owner = None
        self.waiters = []

    def acquire(self, blocking=True, timeout=-1):
        sim = SimLock.sim
        if sim is None or sim.cur is None:
            # outside a simulation (e.g. module import): behave like an uncontended lock
            if self.owner is not None:
                raise RuntimeError("SimLock used outside simulation while held")
            self.owner = "outside"
            return True
        me = sim.cur
        sim.point("lock.acquire")
        contended = False
        while self.owner is not None:
            if self.owner is me:
                # threading.Lock is not re-entrant: a real deadlock
                pass
            if not blocking:
                return False
            contended = True
            me.state = "blocked"
            self.waiters.append(me)
            sim._switch_from(me, must=True)
        if contended:
            sim.contended += 1
        self.owner = me
        return True

    def release(self):
        sim = SimLock.sim
        if self.owner is None:
            raise RuntimeError("release unlocked lock")
        self.owner = None
        for w in self.waiters:
            w.state = "run"
        self.waiters = []
        if sim is not None and sim.cur is not None:
            sim.point("lock.release")

    def locked(self):
        return self.owner is not None

    def __enter__(self):
        self.acquire()
        return self

    def __exit__(self, *exc):
        # never pre-empt with an exception in flight differently: same path
        self.release()
        return False

"""SimLoop: a virtual-time asyncio event loop with a seeded inline executor.

* ``time()`` is virtual seconds; when nothing is ready the clock jumps to the
  earliest timer, so minute-long latencies cost microseconds.
* ``run_in_executor`` starts no thread: the job runs inline at a seeded later
  virtual time and its future resolves at a (seeded) still later time, so
  completion order of executor jobs is decided by the seed.
* The ready queue keeps asyncio's FIFO order: permuting it would create
  schedules the real loop cannot produce.
* Nothing ready, no timer pending, root task unfinished = ``SimDeadlock``.
* A step cap bounds every run (``SimStepCap``).

All seeded latencies come from ``sim.latency(site)``; the ``site`` strings are
also the event log from which the interleaving signature is computed.
"""
from __future__ import annotations

import asyncio
import heapq
from asyncio import events

from .rng import digest


class SimDeadlock(Exception):
    pass


class SimStepCap(Exception):
    pass


class SimLoop(asyncio.BaseEventLoop):
    def __init__(self, rng, *, step_cap=20000, lat_profile=None):
        super().__init__()
        self._now = 0.0
        self.rng = rng                    # the run's "sched" stream
        self.steps = 0
        self.step_cap = step_cap
        self.seq = 0                      # global event sequence number
        self.log = []                     # (seq, actor, site)
        self.executor_jobs = 0
        self.executor_out_of_order = 0
        self._exec_submitted = 0
        self._exec_last_completed = -1
        self.suspensions = 0
        self.lat = dict(lat_profile or {})
        self.lat.setdefault("max", 0.010)
        self.lat.setdefault("zero_p", 0.3)
        self.lat.setdefault("stall_p", 0.0)
        self.streams = {}                 # actor name -> Rng (per-op decision streams)
        self.inline = 0                   # >0: model mode, nothing suspends

    # -- clock -----------------------------------------------------------------
    def time(self):
        return self._now

    # -- the parts of BaseEventLoop that need a selector -------------------------
    def _process_events(self, event_list):  # pragma: no cover
        pass

    def _write_to_self(self):
        pass

    def _run_once(self):
        sched = self._scheduled
        # drop cancelled timers at the head
        while sched and sched[0]._cancelled:
            self._timer_cancelled_count -= 1
            h = heapq.heappop(sched)
            h._scheduled = False
        if not self._ready and not self._stopping:
            if not sched:
                raise SimDeadlock("nothing ready and no timer pending")
            when = sched[0]._when
            if when > self._now:
                self._now = when
        end = self._now + self._clock_resolution
        while sched:
            h = sched[0]
            if h._when >= end:
                break
            h = heapq.heappop(sched)
            h._scheduled = False
            if h._cancelled:
                self._timer_cancelled_count -= 1
                continue
            self._ready.append(h)
        ntodo = len(self._ready)
        for _ in range(ntodo):
            h = self._ready.popleft()
            if h._cancelled:
                continue
            self.steps += 1
            if self.steps > self.step_cap:
                raise SimStepCap(f"more than {self.step_cap} loop steps")
            h._run()
        h = None

    # -- seeded executor -----------------------------------------------------------
    def run_in_executor(self, executor, func, *args):
        fut = self.create_future()
        if self.inline:
            # model mode: the job runs now and the future is already done, so
            # ``await fut`` does not suspend
            try:
                fut.set_result(func(*args))
            except Exception as e:  # noqa: BLE001
                fut.set_exception(e)
            return fut
        idx = self._exec_submitted
        self._exec_submitted += 1
        self.executor_jobs += 1
        actor = self.actor()
        d1 = self.draw_latency("exec.start")
        d2 = self.draw_latency("exec.done")
        box = {}

        def start():
            self.event("exec.run", actor)
            try:
                box["r"] = func(*args)
            except BaseException as e:  # noqa: BLE001 - delivered through the future
                if isinstance(e, (SimDeadlock, SimStepCap, KeyboardInterrupt, SystemExit)):
                    raise
                box["e"] = e
            self.call_later(d2, done)   # scheduled from here: never before the job ran

        def done():
            if idx < self._exec_last_completed:
                self.executor_out_of_order += 1
            self._exec_last_completed = max(self._exec_last_completed, idx)
            if fut.cancelled():
                return
            if "e" in box:
                fut.set_exception(box["e"])
            else:
                fut.set_result(box.get("r"))

        self.call_later(d1, start)
        return fut

    def set_default_executor(self, executor):  # pragma: no cover
        pass

    # -- seeded latency ---------------------------------------------------------------
    def draw_latency(self, site):
        r = self.streams.get(self.actor()) or self.rng
        if r.chance(self.lat["zero_p"]):
            return 0.0
        if self.lat["stall_p"] and r.chance(self.lat["stall_p"]):
            return self.lat["max"] * 1000
        return r.random() * self.lat["max"]

    async def latency(self, site, actor=None):
        """Suspend the calling task for a seeded virtual duration (possibly 0 =
        one trip through the ready queue)."""
        if self.inline:
            return
        d = self.draw_latency(site)
        self.suspensions += 1
        me = actor or self.actor()
        self.event(site + ".suspend", me)
        await asyncio.sleep(d)
        self.event(site + ".resume", me)

    # -- event log ---------------------------------------------------------------
    def actor(self):
        """Name of the task now running (tasks are always named explicitly)."""
        t = asyncio.current_task(self)
        return t.get_name() if t is not None else "-"

    def event(self, site, actor=None):
        self.seq += 1
        self.log.append((self.seq, actor or self.actor(), site))
        return self.seq

    def interleaving_signature(self):
        # sequence of actors at actor changes
        out = []
        for _, a, _ in self.log:
            if not out or out[-1] != a:
                out.append(a)
        return digest(out)

    def log_digest(self):
        return digest(self.log)

    # -- running ---------------------------------------------------------------
    def run_sim(self, coro):
        """Run coro to completion on this loop; always closes the loop."""
        events._set_running_loop(None)
        asyncio.set_event_loop(self)
        try:
            task = self.create_task(coro, name="root")
            try:
                return self.run_until_complete(task)
            finally:
                if not task.done():
                    task.cancel()
                self._drain()
        finally:
            asyncio.set_event_loop(None)
            self.close()

    def _drain(self):
        # cancel whatever is left (after a deadlock / step cap / violation) quietly
        try:
            pend = [t for t in asyncio.all_tasks(self) if not t.done()]
            for t in pend:
                t.cancel()
            self.step_cap = self.steps + 5000
            if pend:
                self.run_until_complete(asyncio.gather(*pend, return_exceptions=True))
        except BaseException:  # noqa: BLE001
            pass


def run_inline(loop, coro):
    """Drive a coroutine to completion without letting it suspend (model mode)."""
    loop.inline += 1
    try:
        try:
            coro.send(None)
        except StopIteration as e:
            return e.value
        coro.close()
        raise RuntimeError("model coroutine suspended in inline mode")
    finally:
        loop.inline -= 1


def name_task(loop, coro, name):
    """create_task with an explicit name (default Task-<n> names leak a global counter)."""
    return loop.create_task(coro, name=name)

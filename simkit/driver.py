"""Batch driver shared by every check.

A *check* object supplies
    PROP, LEVEL, TIERS, RULE, COMPONENTS, ASSUMPTIONS, REQUIRED_REACH
    gen(run_seed, tier) -> scenario (JSON-able dict; the op list IS the
                           schedule-and-fault trace)
    run(scenario)       -> result dict (see RunResult below)
    shrink(scenario)    -> iterator of strictly smaller candidate scenarios

The driver derives one run seed per run index from VERIF_SEED, farms runs out
to forked worker processes (results are independent of the worker count),
aggregates counters, minimises and replays violations, matches them against
/verif/known_findings.json, runs the determinism self-test in a fresh
interpreter under another PYTHONHASHSEED, and writes the evidence file.

Exit codes: 0 held / 1 VIOLATION / 2 harness problem (never a verdict).
"""
from __future__ import annotations

import argparse
import faulthandler
import json
import multiprocessing
import os
import re
import subprocess
import sys
import time
import traceback
from concurrent.futures import ProcessPoolExecutor, as_completed
from concurrent.futures.process import BrokenProcessPool

from .rng import derive, digest

VERIF = os.path.dirname(os.path.dirname(os.path.abspath(__file__)))
RUN_WALL_CAP_S = 120  # per-run backstop; a killed run is HARNESS-TIMEOUT, never a pass


def new_result():
    return {
        "violations": [],   # [{"oracle":..., "sig":..., "detail":...}]
        "stats": {},        # counters: fault kinds fired, reach probes
        "digest": "",       # event-log digest (determinism)
        "isig": "",         # interleaving / state signature
        "nontrivial": False,
        "states": [],       # abstract state hashes reached (ints)
        "sim_time": 0.0,
        "steps": 0,
    }


def bump(stats, key, n=1):
    stats[key] = stats.get(key, 0) + n


# ---------------------------------------------------------------------------
# worker side

_CHECK = None
_DEBUG = bool(os.environ.get("VERIF_DEBUG"))


def _self_forking(chk):
    """True when chk.run already executes every run in a fork of a history-free process."""
    return bool(getattr(chk, "RUNS_FORK_THEMSELVES", False))


_HISTORY = []   # this worker's process history: [first run index, count] of every chunk it has executed


def _worker_chunk(args):
    """A chunk of consecutive runs, executed in this (long-lived) worker.  The worker records which
    chunks it has executed; a violation carries that record, so that a violation which only shows
    after earlier runs in the same process (state the code under test keeps at module level) can be
    replayed: the earlier runs become the 'prelude' of its replay file and are minimised like any
    other part of the history.  Forking one process per chunk would make the history shorter but
    costs 3x throughput in this sandbox (page-fault and fork costs); VERIF_CHUNK_FORK=1 selects it."""
    chk = _CHECK
    if os.environ.get("VERIF_CHUNK_FORK") and not _self_forking(chk):
        from .fork import run_in_fork
        count = args[3]
        try:
            return run_in_fork(_chunk_body, args + ([],),
                               timeout_s=int(RUN_WALL_CAP_S + count * getattr(chk, 'RUN_S', 2)) + 30)
        except RuntimeError as e:
            return {"runs": 0, "stats": {}, "nontrivial": set(), "isigs": set(), "states": set(),
                    "violations": [], "digests": {}, "samples": [], "sim_time": 0.0, "steps": 0,
                    "harness": [{"run_index": args[2], "run_seed": None,
                                 "error": "HARNESS-TIMEOUT/CRASH in chunk starting at run %d: %s" % (args[2], e)}]}
    hist = [list(h) for h in _HISTORY]
    _HISTORY.append([args[2], args[3]])
    return _chunk_body(args + (hist,))


def _chunk_body(args):
    (verif_seed, tier, start, count, want_digests, want_samples, worker_hist) = args
    chk = _CHECK
    faulthandler.dump_traceback_later(RUN_WALL_CAP_S + count * getattr(chk, 'RUN_S', 2), exit=True)
    agg = {
        "runs": 0, "stats": {}, "nontrivial": set(), "isigs": set(), "states": set(),
        "violations": [], "digests": {}, "samples": [], "sim_time": 0.0, "steps": 0,
        "harness": [],
    }
    for idx in range(start, start + count):
        run_seed = derive(verif_seed, "run", idx)
        try:
            _t0 = time.time()
            sc = chk.gen(run_seed, tier)
            _t1 = time.time()
            res = chk.run(sc)
            if _DEBUG and time.time() - _t0 > 1.0:
                sys.stderr.write("SLOW-RUN idx=%d gen=%.2fs run=%.2fs\n" % (idx, _t1 - _t0, time.time() - _t1))
        except BaseException as e:  # harness bug: classified apart from VIOLATION
            agg["harness"].append(
                {"run_index": idx, "run_seed": run_seed,
                 "error": "".join(traceback.format_exception(e))[-4000:]})
            continue
        agg["runs"] += 1
        for k, v in res["stats"].items():
            agg["stats"][k] = agg["stats"].get(k, 0) + v
        agg["sim_time"] += res.get("sim_time", 0.0)
        agg["steps"] += res.get("steps", 0)
        if res["isig"]:
            agg["isigs"].add(int(res["isig"][:14], 16))
        if res["nontrivial"]:
            agg["nontrivial"].add(int(digest((sc, res["isig"]))[:14], 16))
        for s in res.get("states", ()):
            agg["states"].add(s)
        if idx < want_digests:
            agg["digests"][idx] = res["digest"]
        if len(agg["samples"]) < want_samples and (res["nontrivial"] or idx == start):
            agg["samples"].append({"run_index": idx, "run_seed": run_seed, "scenario": sc,
                                   "isig": res["isig"]})
        for v in res["violations"]:
            if len(agg["violations"]) < 40:
                agg["violations"].append(_plain({"run_index": idx, "run_seed": run_seed,
                                                 "chunk_start": start, "worker_history": worker_hist,
                                                 "scenario": sc, **v}))
    faulthandler.cancel_dump_traceback_later()
    return agg


def _plain(obj):
    """Plain JSON types only: objects of the code under test (str subclasses with odd constructors,
    Markup, ...) must never travel between processes inside a result."""
    def conv(o):
        if o is None or isinstance(o, (bool, int, float)):
            return o
        if isinstance(o, str):
            return str.__str__(o) if type(o) is not str else o
        if isinstance(o, dict):
            return {(k if type(k) in (str, int) else repr(k)): conv(v) for k, v in o.items()}
        if isinstance(o, (list, tuple)):
            return [conv(x) for x in o]
        return repr(o)
    return conv(obj)


def _trial_here(chk, prelude, sc, sig):
    init = getattr(chk, "trial_init", None)
    if init is not None:
        init()      # e.g. a fresh companion process for this (still history-free) trial process
    for p in prelude:
        try:
            chk.run(p)
        except BaseException:  # noqa: BLE001 - a prelude run only contributes process history
            pass
    try:
        res = chk.run(sc)
    except BaseException:  # noqa: BLE001
        return None
    for v in res["violations"]:
        if v["sig"] == sig:
            return _plain((v, {"digest": res["digest"]}))
    return None


def _fails_with(chk, sc, sig, prelude=()):
    """Does `sc` (after the runs in `prelude`, in one fresh process) violate with signature sig?"""
    if _self_forking(chk) or os.environ.get("VERIF_NOFORK"):
        return _trial_here(chk, prelude, sc, sig)
    from .fork import run_in_fork
    try:
        return run_in_fork(_trial_here, chk, list(prelude), sc, sig, timeout_s=RUN_WALL_CAP_S)
    except RuntimeError:
        return None


def _shrink_loop(chk, cur, sig, prelude, t0, budget_s, trial):
    tried = 0
    improved = True
    while improved and time.time() - t0 < budget_s:
        improved = False
        for cand in chk.shrink(cur):
            tried += 1
            if trial(cand, prelude):
                cur = cand
                improved = True
                break
            if time.time() - t0 > budget_s:
                break
    return cur, tried


def _worker_minimise(args):
    (sc, sig, budget_s, prelude) = args
    chk = _CHECK
    faulthandler.dump_traceback_later(budget_s * 3 + RUN_WALL_CAP_S * 2, exit=True)
    t0 = time.time()
    tried = 0
    prelude = list(prelude)

    def forked(cand, pre):
        return _fails_with(chk, cand, sig, pre)

    def local(cand, pre):   # fast path: trials in this process (valid when no history is involved)
        return _trial_here(chk, pre, cand, sig)

    cur = sc
    if _fails_with(chk, sc, sig):
        prelude = []
        # history-free violation: shrink with many trials inside ONE sacrificial child process
        # (fast), then confirm its result in a fresh child of this still history-free worker;
        # if state kept by the code under test between trials misled the search, redo it with
        # one fresh process per trial
        cand, n = sc, 0
        if _self_forking(chk) or os.environ.get("VERIF_NOFORK"):
            cand, n = _shrink_loop(chk, sc, sig, prelude, t0, budget_s * 0.6, local)
        else:
            from .fork import run_in_fork
            try:
                cand, n = run_in_fork(_shrink_loop, chk, sc, sig, prelude, t0, budget_s * 0.6, local,
                                      timeout_s=int(budget_s * 3 + RUN_WALL_CAP_S))
            except RuntimeError:
                cand, n = sc, 0
        tried += n
        if _fails_with(chk, cand, sig):
            cur = cand
        else:
            cur, n = _shrink_loop(chk, sc, sig, prelude, t0, budget_s, forked)
            tried += n
    else:
        # needs process history: the runs that preceded it in its chunk
        if not prelude or not _fails_with(chk, sc, sig, prelude):
            faulthandler.cancel_dump_traceback_later()
            return {"scenario": sc, "prelude": prelude, "confirmed": False, "tried": tried}
        # minimise the history first: drop chunks of earlier runs, then single runs
        improved = True
        while improved and time.time() - t0 < budget_s:
            improved = False
            for cand in shrink_list(prelude):
                tried += 1
                if _fails_with(chk, sc, sig, cand):
                    prelude = cand
                    improved = True
                    break
                if time.time() - t0 > budget_s:
                    break
        cur, n = _shrink_loop(chk, sc, sig, prelude, t0, budget_s, forked)
        tried += n
        # shrink the history runs as well (they need not be violations themselves)
        for i in range(len(prelude)):
            improved = True
            while improved and time.time() - t0 < budget_s:
                improved = False
                for cand in chk.shrink(prelude[i]):
                    tried += 1
                    if _fails_with(chk, cur, sig, prelude[:i] + [cand] + prelude[i + 1:]):
                        prelude[i] = cand
                        improved = True
                        break
                    if time.time() - t0 > budget_s:
                        break
    hit = _fails_with(chk, cur, sig, prelude)
    faulthandler.cancel_dump_traceback_later()
    if not hit:  # flaky under re-run: report unminimised, flagged
        return {"scenario": sc, "prelude": list(args[3]), "confirmed": False, "tried": tried}
    v, res = hit
    return _plain({"scenario": cur, "prelude": prelude, "confirmed": True, "tried": tried, "violation": v,
                   "digest": res["digest"]})


# ---------------------------------------------------------------------------
# helpers for checks: generic list shrinking


def shrink_list(lst, min_len=0):
    """Yield smaller copies of lst: drop halves, quarters, ..., single items."""
    n = len(lst)
    if n <= min_len:
        return
    size = n // 2
    while size >= 1:
        for i in range(0, n, size):
            cand = lst[:i] + lst[i + size:]
            if len(cand) >= min_len and len(cand) < n:
                yield cand
        size //= 2


# ---------------------------------------------------------------------------
# known findings


def load_known(prop):
    path = os.path.join(VERIF, "known_findings.json")
    try:
        with open(path) as f:
            data = json.load(f)
    except FileNotFoundError:
        return []
    return [e for e in data.get("findings", [])
            if e.get("property") == prop and e.get("status") == "known"]


def match_known(known, sig):
    for e in known:
        if re.fullmatch(e["sig"], sig):
            return e
    return None


# ---------------------------------------------------------------------------
# main entry


def main(chk, argv=None):
    global _CHECK
    _CHECK = chk
    ap = argparse.ArgumentParser(prog=f"check {chk.PROP}")
    ap.add_argument("--tier", default=os.environ.get("VERIF_TIER") or "quick",
                    choices=["quick", "thorough"])
    ap.add_argument("--replay")
    ap.add_argument("--digests", type=int, help="internal: print digests of runs 0..N-1")
    ap.add_argument("--runs", type=int, default=int(os.environ.get("VERIF_RUNS", 0)))
    ap.add_argument("--procs", type=int, default=int(os.environ.get("VERIF_PROCS", 0)))
    ap.add_argument("--budget", type=float, default=float(os.environ.get("VERIF_BUDGET_S", 0)))
    ap.add_argument("--one", type=int, help="debug: run a single run index verbosely")
    ap.add_argument("--start", type=int, default=0, help="first run index of the batch (default 0)")
    ap.add_argument("--no-evidence", action="store_true")
    a = ap.parse_args(argv)
    seed = int(os.environ.get("VERIF_SEED") or 0)

    if a.replay or a.one is not None:
        init = getattr(chk, "process_init", None)
        if init is not None:
            init()
    if a.replay:
        return _replay(chk, a.replay)
    if a.one is not None:
        run_seed = derive(seed, "run", a.one)
        sc = chk.gen(run_seed, a.tier)
        print(json.dumps(sc, indent=1, default=repr))
        res = chk.run(sc)
        res["states"] = len(res.get("states", ()))
        print(json.dumps(res, indent=1, default=repr))
        return 1 if res["violations"] else 0

    tier = dict(chk.TIERS[a.tier])
    runs = a.runs or tier["runs"]
    budget = a.budget or tier["budget_s"]
    procs = a.procs or min(16, os.cpu_count() or 1)
    chunk = tier.get("chunk", 50)

    if a.digests is not None:
        out = _batch(chk, seed, a.tier, a.digests, 1e9, procs, max(1, a.digests // 7 or 1),
                     a.digests, 0)
        print("DIGESTS " + json.dumps([out["digests"].get(i) for i in range(a.digests)]))
        return 2 if out["harness"] else 0

    t0 = time.time()
    print(f"[{chk.PROP}] tier={a.tier} VERIF_SEED={seed} runs<={runs} budget={budget:.0f}s "
          f"procs={procs}", flush=True)
    ndig = tier.get("determinism_runs", 32)
    out = _batch(chk, seed, a.tier, runs, budget, procs, chunk, ndig, 6, a.start)
    wall_batch = time.time() - t0

    status = 0
    notes = []
    if out["harness"]:
        status = 2
        for h in out["harness"][:3]:
            print(f"HARNESS-ERROR property={chk.PROP} run_index={h.get('run_index')} "
                  f"run_seed={h.get('run_seed')}\n{h['error']}", flush=True)

    # ---- violations: known / new ---------------------------------------
    known = load_known(chk.PROP)
    by_sig = {}
    for v in out["violations"]:
        by_sig.setdefault(v["sig"], []).append(v)
    new_sigs, known_hit = [], {}
    for sig in sorted(by_sig):
        e = match_known(known, sig)
        if e:
            known_hit.setdefault(e["id"], (e, []))[1].append(sig)
        else:
            new_sigs.append(sig)
    for fid, (e, sigs) in sorted(known_hit.items()):
        n = sum(len(by_sig[s]) for s in sigs)
        print(f"KNOWN-FINDING: property={chk.PROP} {fid}: {e['what']} "
              f"(seen in {n} runs this batch)", flush=True)

    replays = []
    if new_sigs:
        os.makedirs(os.path.join(VERIF, "replays"), exist_ok=True)
        todo = new_sigs[:tier.get("max_reports", 6)]
        jobs = []
        for sig in todo:
            first = min(by_sig[sig], key=lambda v: v["run_index"])
            jobs.append((first, sig))
        mins = _minimise_all(chk, jobs, procs, tier.get("minimise_s", 40), seed, a.tier)
        for (first, sig), m in zip(jobs, mins):
            v = m.get("violation") or {k: first[k] for k in ("oracle", "sig", "detail")}
            rp = {
                "property": chk.PROP, "verif_seed": seed, "run_index": first["run_index"],
                "run_seed": first["run_seed"], "tier": a.tier, "oracle": v["oracle"],
                "sig": sig, "detail": v["detail"], "scenario": m["scenario"],
                "prelude": m.get("prelude") or [],
                "prelude_note": ("process history: these runs are executed first, in the same fresh process, "
                                 "then 'scenario'; empty when the violation needs no earlier run"),
                "minimised": m["confirmed"], "shrink_candidates_tried": m["tried"],
                "digest": m.get("digest"), "occurrences_in_batch": len(by_sig[sig]),
                "original_scenario": first["scenario"] if not m["confirmed"] else None,
            }
            path = os.path.join(VERIF, "replays",
                                f"{chk.PROP}-{seed}-{first['run_index']}-{digest(sig)[:8]}.json")
            with open(path, "w") as f:
                json.dump(rp, f, indent=1, default=repr)
            ok = _replay_fresh(chk, path, sig, m.get("digest"))
            if not ok:
                print(f"HARNESS-NONDETERMINISM property={chk.PROP} replay of {path} in a fresh "
                      f"interpreter did not reproduce sig={sig}", flush=True)
                status = 2
                continue
            replays.append(path)
            print(f"VIOLATION property={chk.PROP} replay={path}", flush=True)
            print(f"  oracle={v['oracle']} sig={sig}\n  detail={json.dumps(v['detail'], default=repr)[:1500]}",
                  flush=True)
        if replays:
            # a violation that replays in a fresh interpreter stands, whatever else went wrong
            # in the batch (harness errors in other runs, another signature that did not replay:
            # those are printed above as HARNESS-* lines)
            status = 1
        if len(new_sigs) > len(todo):
            print(f"  ({len(new_sigs) - len(todo)} further distinct violation signatures not minimised: "
                  f"{new_sigs[len(todo):][:10]})", flush=True)

    # ---- determinism self-test -------------------------------------------
    det = {"runs_compared": 0, "ok": None}
    if ndig and not a.no_evidence:
        det = _determinism(chk, seed, a.tier, ndig, out["digests"], procs)
        if det["ok"] is False:
            print(f"HARNESS-NONDETERMINISM property={chk.PROP} {det['detail']}", flush=True)
            if not replays:     # (state kept by the code under test between runs also shows here)
                status = 2

    # ---- reach -------------------------------------------------------------
    missing = [k for k in getattr(chk, "REQUIRED_REACH", ()) if not out["stats"].get(k)]
    if missing:
        notes.append(f"reach probes at zero: {missing}")
        if a.tier == "thorough" or tier.get("enforce_reach"):
            print(f"HARNESS-NO-REACH property={chk.PROP} probes at zero: {missing}", flush=True)
            status = status or 2

    wall = time.time() - t0
    nviol = len(new_sigs)
    if not a.no_evidence:
        _write_evidence(chk, a.tier, seed, out, wall, wall_batch, procs, det, nviol,
                        known_hit, notes, replays, budget, runs)
    print(f"[{chk.PROP}] runs={out['runs']} nontrivial_distinct={len(out['nontrivial'])} "
          f"interleavings={len(out['isigs'])} violations={nviol} known={len(known_hit)} "
          f"batch={wall_batch:.1f}s wall={wall:.1f}s exit={status}", flush=True)
    return status


def _pin():
    # one CPU per worker: baton hand-offs between a worker's threads stay on one
    # core (3-4x faster than cross-core futex wake-ups); no effect on results
    try:
        if os.environ.get("VERIF_NOPIN") or getattr(_CHECK, "NO_PIN", False):
            raise OSError
        cpus = sorted(os.sched_getaffinity(0))
        ident = multiprocessing.current_process()._identity
        k = (ident[0] - 1) if ident else 0
        os.sched_setaffinity(0, {cpus[k % len(cpus)]})
    except (AttributeError, OSError):
        pass
    init = getattr(_CHECK, "process_init", None)
    if init is not None:
        init()   # e.g. fork the pristine zygote before this worker has any history


def _pool(procs):
    ctx = multiprocessing.get_context("fork")
    return ProcessPoolExecutor(max_workers=procs, mp_context=ctx, initializer=_pin)


def _batch(chk, seed, tier, runs, budget, procs, chunk, ndig, nsamples, start=0):
    t0 = time.time()
    out = {"runs": 0, "stats": {}, "nontrivial": set(), "isigs": set(), "states": set(),
           "violations": [], "digests": {}, "samples": [], "sim_time": 0.0, "steps": 0,
           "harness": [], "stopped_by_budget": False}
    starts = list(range(start, runs, chunk))
    try:
        with _pool(procs) as ex:
            pending = {}
            it = iter(starts)

            def submit():
                s = next(it, None)
                if s is None:
                    return False
                c = min(chunk, runs - s)
                f = ex.submit(_worker_chunk, (seed, tier, s, c, ndig, 1 if nsamples else 0))
                pending[f] = s
                return True

            for _ in range(procs + max(2, procs // 4)):
                if not submit():
                    break
            while pending:
                done = next(as_completed(list(pending)))
                pending.pop(done)
                agg = done.result()
                out["runs"] += agg["runs"]
                for k, v in agg["stats"].items():
                    out["stats"][k] = out["stats"].get(k, 0) + v
                out["nontrivial"] |= agg["nontrivial"]
                out["isigs"] |= agg["isigs"]
                out["states"] |= agg["states"]
                out["digests"].update(agg["digests"])
                out["sim_time"] += agg["sim_time"]
                out["steps"] += agg["steps"]
                out["harness"] += agg["harness"]
                if len(out["violations"]) < 400:
                    out["violations"] += agg["violations"]
                for s in agg["samples"]:
                    if len(out["samples"]) < nsamples:
                        out["samples"].append(s)
                if time.time() - t0 < budget:
                    submit()
                else:
                    if next(it, None) is not None:
                        out["stopped_by_budget"] = True
                    it = iter(())
    except BrokenProcessPool:
        out["harness"].append({"error": "HARNESS-TIMEOUT: a worker was killed (per-run wall cap "
                                        "or crash); no verdict from this batch"})
    return out


def _prelude_of(chk, seed, tier, first):
    """Scenarios of the runs that preceded `first` in its worker process (its process history):
    the chunks the worker had executed before, then the runs of its own chunk before it."""
    if _self_forking(chk) or first.get("chunk_start") is None:
        return []
    idxs = []
    for s0, c in first.get("worker_history") or []:
        idxs += list(range(s0, s0 + c))
    idxs += list(range(first["chunk_start"], first["run_index"]))
    return [_plain(chk.gen(derive(seed, "run", i), tier)) for i in idxs]


def _minimise_all(chk, jobs, procs, budget_s, seed, tier):
    res = []
    try:
        with _pool(min(procs, max(1, len(jobs)))) as ex:
            futs = [ex.submit(_worker_minimise, (first["scenario"], sig, budget_s,
                                                 _prelude_of(chk, seed, tier, first)))
                    for first, sig in jobs]
            for f, (first, sig) in zip(futs, jobs):
                try:
                    res.append(f.result())
                except Exception:
                    res.append({"scenario": first["scenario"], "prelude": [], "confirmed": False, "tried": 0})
    except BrokenProcessPool:
        while len(res) < len(jobs):
            res.append({"scenario": jobs[len(res)][0]["scenario"], "prelude": [], "confirmed": False,
                        "tried": 0})
    return res


def _self_cmd(chk):
    return [sys.executable, "-B", os.path.abspath(sys.modules[chk.__class__.__module__].__file__)]


def _replay_fresh(chk, path, sig, dig):
    env = dict(os.environ)
    p = subprocess.run(_self_cmd(chk) + ["--replay", path], env=env, capture_output=True,
                       text=True, timeout=600)
    want = f"REPLAYED sig={sig}"
    if p.returncode != 1 or want not in p.stdout:
        sys.stdout.write(p.stdout[-2000:] + p.stderr[-2000:])
        return False
    if dig and f"digest={dig}" not in p.stdout:
        sys.stdout.write(p.stdout[-2000:])
        return False
    return True


def _replay(chk, path):
    with open(path) as f:
        rp = json.load(f)
    for p in rp.get("prelude") or []:
        try:
            chk.run(p)
        except BaseException:  # noqa: BLE001 - history only
            pass
    res = chk.run(rp["scenario"])
    hit = [v for v in res["violations"] if v["sig"] == rp["sig"]]
    if hit:
        print(f"REPLAYED sig={rp['sig']} digest={res['digest']}")
        print(f"VIOLATION property={chk.PROP} replay={os.path.abspath(path)}")
        print("  detail=" + json.dumps(hit[0]["detail"], default=repr)[:3000])
        return 1
    others = [v["sig"] for v in res["violations"]]
    print(f"replay: recorded violation sig={rp['sig']} not reproduced on this tree "
          f"(other violations: {others})")
    return 1 if others else 0


def _determinism(chk, seed, tier, n, parent_digests, procs):
    env = dict(os.environ)
    env["PYTHONHASHSEED"] = "4242"
    env["VERIF_SEED"] = str(seed)
    env["VERIF_INNER"] = "1"
    other_procs = 3 if procs != 3 else 5
    try:
        p = subprocess.run(_self_cmd(chk) + ["--tier", tier, "--digests", str(n), "--procs",
                                             str(other_procs)],
                           env=env, capture_output=True, text=True, timeout=1800)
    except subprocess.TimeoutExpired:
        return {"runs_compared": 0, "ok": False, "detail": "determinism subprocess timed out"}
    m = re.search(r"^DIGESTS (.*)$", p.stdout, re.M)
    if not m:
        return {"runs_compared": 0, "ok": False,
                "detail": "determinism subprocess gave no digests: " + (p.stdout + p.stderr)[-1500:]}
    theirs = json.loads(m.group(1))
    bad = [i for i in range(n) if i in parent_digests and parent_digests[i] != theirs[i]]
    cmp_n = sum(1 for i in range(n) if i in parent_digests)
    if bad:
        return {"runs_compared": cmp_n, "ok": False,
                "detail": f"event-log digests differ for run indices {bad[:10]} between "
                          f"PYTHONHASHSEED=0/{procs} workers and PYTHONHASHSEED=4242/{other_procs} workers"}
    return {"runs_compared": cmp_n, "ok": True,
            "how": f"runs 0..{n - 1} re-executed in a fresh interpreter with PYTHONHASHSEED=4242 and "
                   f"{other_procs} workers (batch: PYTHONHASHSEED={os.environ.get('PYTHONHASHSEED')}, "
                   f"{procs} workers); event-log digests equal"}


def _write_evidence(chk, tier, seed, out, wall, wall_batch, procs, det, nviol, known_hit,
                    notes, replays, budget, runs_target):
    os.makedirs(os.path.join(VERIF, "evidence"), exist_ok=True)
    stats = dict(sorted(out["stats"].items()))
    faults = {k[6:]: v for k, v in stats.items() if k.startswith("fault.")}
    reach = {k[6:]: v for k, v in stats.items() if k.startswith("reach.")}
    other = {k: v for k, v in stats.items() if not k.startswith(("fault.", "reach."))}
    cov = {
        "evaluations": out["runs"],
        "distinct_nontrivial": len(out["nontrivial"]),
        "rule": chk.RULE,
        "samples": out["samples"][:4],
        "runs_target": runs_target,
        "stopped_by_budget": out["stopped_by_budget"],
        "budget_s": budget,
        "runs_per_hour": int(out["runs"] / max(wall_batch, 1e-6) * 3600),
        "run_seed_derivation": "run_seed = blake2b(VERIF_SEED, 'run', run_index) >> 1; run indices 0..evaluations-1",
        "workers": procs,
        "simulated_time_s": round(out["sim_time"], 3),
        "simulator_steps": out["steps"],
        "faults_fired": faults,
        "reach_probes": reach,
        "counters": other,
        "distinct_interleaving_signatures": len(out["isigs"]),
        "distinct_abstract_states": len(out["states"]),
        "state_measure": getattr(chk, "STATE_MEASURE", ""),
        "components": chk.COMPONENTS,
        "determinism_selftest": det,
        "known_findings_seen": {k: len(v[1]) for k, v in known_hit.items()},
        "replays": replays,
        "notes": notes,
    }
    extra = getattr(chk, "extra_coverage", None)
    if extra:
        cov.update(extra(out))
    ev = {
        "property_id": chk.PROP,
        "tier": tier,
        "seed": seed,
        "level": chk.LEVEL,
        "coverage": cov,
        "assumptions": chk.ASSUMPTIONS,
        "wall_s": round(wall, 2),
        "violations": nviol,
    }
    path = os.path.join(VERIF, "evidence", f"{chk.PROP}.json")
    tmp = path + ".tmp"
    with open(tmp, "w") as f:
        json.dump(ev, f, indent=1, default=repr)
        f.write("\n")
    os.replace(tmp, path)

"""SimFS and FaultyPath: simulator-owned storage for the file-system loaders.

``SimFS`` is a real directory tree on tmpfs (removed at the end of every run);
files get their mtime from the fault plan via ``os.utime``, never from the
real clock.  ``FaultyPath`` is a ``PosixPath`` subclass substituted for the
module global ``Path`` of ``liquid.builtin.loaders.file_system_loader``: every
``stat`` / ``open`` / ``resolve`` (``exists`` and ``is_file`` go through
``stat``) first consults ``FaultyPath.plan`` which counts the call and may
raise an injected ``OSError`` or run a pending editor action *between* two
storage calls of one request.
"""
from __future__ import annotations

import errno
import os
import shutil
import tempfile
from pathlib import PosixPath

BASE_MTIME = 1_700_000_000.0
ERRNOS = {
    "ENOENT": errno.ENOENT, "EACCES": errno.EACCES, "EIO": errno.EIO, "ELOOP": errno.ELOOP,
    "ENAMETOOLONG": errno.ENAMETOOLONG, "EMFILE": errno.EMFILE, "ENOTDIR": errno.ENOTDIR,
}


def _tmp_base():
    return "/dev/shm" if os.path.isdir("/dev/shm") and os.access("/dev/shm", os.W_OK) else None


class SimFS:
    def __init__(self):
        self.root = tempfile.mkdtemp(prefix="lv-", dir=_tmp_base())

    def path(self, rel=""):
        return os.path.join(self.root, rel) if rel else self.root

    def mkdir(self, rel):
        os.makedirs(self.path(rel), exist_ok=True)

    def write(self, rel, text, tick):
        p = self.path(rel)
        os.makedirs(os.path.dirname(p), exist_ok=True)
        with open(p, "w", encoding="utf-8") as f:
            f.write(text)
        t = BASE_MTIME + tick
        os.utime(p, (t, t))

    def delete(self, rel):
        try:
            os.unlink(self.path(rel))
        except FileNotFoundError:
            pass

    def symlink(self, rel, target, target_is_directory=False):
        p = self.path(rel)
        os.makedirs(os.path.dirname(p), exist_ok=True)
        os.symlink(target, p, target_is_directory=target_is_directory)

    def close(self):
        shutil.rmtree(self.root, ignore_errors=True)


class FaultPlan:
    """Counts storage calls; may inject errors / run an action at the k-th call."""

    def __init__(self):
        self.calls = 0
        self.by_kind = {}
        self.faults = []       # [{"at": k, "kind": "stat"|"open"|"resolve"|"any", "errno": name}]
        self.actions = []      # [(at_call, callable)]
        self.fired = []        # record of what fired
        self.enabled = True

    def on_call(self, kind, path):
        if not self.enabled:
            return
        self.calls += 1
        self.by_kind[kind] = self.by_kind.get(kind, 0) + 1
        n = self.calls
        if self.actions:
            due = [a for a in self.actions if a[0] <= n]
            if due:
                self.actions = [a for a in self.actions if a[0] > n]
                self.enabled = False
                try:
                    for _, fn in due:
                        fn()
                        self.fired.append(("action", n, kind))
                finally:
                    self.enabled = True
        if self.faults:
            for f in self.faults:
                if f["at"] <= n and f["kind"] in (kind, "any"):
                    self.faults.remove(f)
                    self.fired.append((f["errno"], n, kind))
                    code = ERRNOS[f["errno"]]
                    raise OSError(code, os.strerror(code), str(path))


class FaultyPath(PosixPath):
    plan: FaultPlan = None   # class attribute seam, set per run

    def stat(self, *, follow_symlinks=True):
        p = FaultyPath.plan
        if p is not None:
            p.on_call("stat", self)
        return super().stat(follow_symlinks=follow_symlinks)

    def open(self, *args, **kwargs):
        p = FaultyPath.plan
        if p is not None:
            p.on_call("open", self)
        return super().open(*args, **kwargs)

    def resolve(self, strict=False):
        p = FaultyPath.plan
        if p is not None:
            p.on_call("resolve", self)
        return super().resolve(strict=strict)

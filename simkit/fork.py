"""The pristine fork: a history-free reference process.

Each worker, *before it has parsed or rendered anything*, forks a zygote that
stays pristine for the life of the worker.  To obtain the history-free outcome
of a probe the zygote forks a grandchild, the grandchild evaluates the probe
(building everything it needs from the probe's JSON-able recipe) and writes
the outcome to a pipe, then exits.  No state survives from one probe to the
next, whatever module-level caches the code under test has or may grow.

Assumes no threads are alive in the zygote at fork time (it never starts any).
"""
from __future__ import annotations

import os
import pickle
import signal
import struct
import sys


def _write_msg(fd, obj):
    data = pickle.dumps(obj, protocol=4)
    os.write(fd, struct.pack("<I", len(data)))
    off = 0
    while off < len(data):
        off += os.write(fd, data[off:off + 65536])


def _read_exact(fd, n):
    buf = b""
    while len(buf) < n:
        chunk = os.read(fd, n - len(buf))
        if not chunk:
            raise EOFError
        buf += chunk
    return buf


def _read_msg(fd):
    (n,) = struct.unpack("<I", _read_exact(fd, 4))
    return pickle.loads(_read_exact(fd, n))


class Zygote:
    def __init__(self, evaluator, timeout_s=300):
        """evaluator(probe) -> result; runs in a grandchild forked from the pristine zygote."""
        self.evaluator = evaluator
        self.timeout_s = timeout_s
        self.memo = {}
        self.forks = 0
        self.hits = 0
        req_r, req_w = os.pipe()
        res_r, res_w = os.pipe()
        pid = os.fork()
        if pid == 0:
            os.close(req_w)
            os.close(res_r)
            try:
                self._serve(req_r, res_w)
            finally:
                os._exit(0)
        os.close(req_r)
        os.close(res_w)
        self.pid = pid
        self.req_w = req_w
        self.res_r = res_r

    # -- zygote side ---------------------------------------------------------------
    def _serve(self, req_r, res_w):
        signal.signal(signal.SIGINT, signal.SIG_IGN)
        import gc
        gc.collect()
        gc.freeze()      # fewer copy-on-write faults in the short-lived grandchildren
        gc.disable()
        while True:
            try:
                probe = _read_msg(req_r)
            except EOFError:
                return
            import time
            t0 = time.time()
            pid = os.fork()
            if pid == 0:
                try:
                    t1 = time.time()
                    signal.alarm(self.timeout_s)
                    try:
                        out = ("result", self.evaluator(probe))
                        if os.environ.get("VERIF_DEBUG"):
                            import resource
                            ru = resource.getrusage(resource.RUSAGE_SELF)
                            sys.stderr.write("GC fork=%.3f eval=%.3f minflt=%d utime=%.3f stime=%.3f\n" % (
                                t1 - t0, time.time() - t1, ru.ru_minflt, ru.ru_utime, ru.ru_stime))
                    except BaseException as e:  # noqa: BLE001
                        import traceback
                        out = ("harness-error", "".join(traceback.format_exception(e))[-3000:])
                    _write_msg(res_w, out)
                finally:
                    os._exit(0)
            _, status = os.waitpid(pid, 0)
            if os.environ.get("VERIF_DEBUG"):
                sys.stderr.write("ZY total=%.3f\n" % (time.time() - t0))
            if status != 0:
                _write_msg(res_w, ("harness-error", "reference process died with status %d" % status))

    # -- worker side ---------------------------------------------------------------
    def ask(self, key, probe):
        """Evaluate `probe` in a fresh grandchild of the pristine zygote (memoised by `key`
        unless key is None)."""
        if key is not None and key in self.memo:
            self.hits += 1
            return self.memo[key]
        import time
        t0 = time.time()
        _write_msg(self.req_w, probe)
        kind, val = _read_msg(self.res_r)
        if time.time() - t0 > 2 and os.environ.get("VERIF_DEBUG"):
            sys.stderr.write("SLOW-ASK %.1fs pid=%d probe=%s\n" % (time.time() - t0, os.getpid(), repr(probe)[:3000]))
        if kind != "result":
            raise RuntimeError("pristine fork: " + str(val))
        self.forks += 1
        if key is None:
            return val
        if len(self.memo) > 20000:
            self.memo.clear()
        self.memo[key] = val
        return val

    def close(self):
        try:
            os.close(self.req_w)
            os.close(self.res_r)
            os.waitpid(self.pid, 0)
        except OSError:
            pass


def run_in_fork(fn, *args, timeout_s=600):
    """Run fn(*args) in a forked child of this (history-free) process and return its
    pickled result.  Used so that every simulated history starts from the same
    process state: whatever the code under test memoises at module level dies with
    the child, and a run is a pure function of its scenario."""
    r, w = os.pipe()
    pid = os.fork()
    if pid == 0:
        os.close(r)
        try:
            signal.alarm(timeout_s)
            try:
                out = ("result", fn(*args))
            except BaseException as e:  # noqa: BLE001
                import traceback
                out = ("harness-error", "".join(traceback.format_exception(e))[-4000:])
            _write_msg(w, out)
        finally:
            os._exit(0)
    os.close(w)
    try:
        try:
            kind, val = _read_msg(r)
        except EOFError:
            kind, val = "harness-error", "history process died without a result"
    finally:
        os.close(r)
        os.waitpid(pid, 0)
    if kind != "result":
        raise RuntimeError("run_in_fork: " + str(val))
    return val


class Companion:
    """A long-lived second process per worker that evaluates, without forking, the *order
    variation* of every history its worker runs: the same probes, alone and in another order,
    in a process whose own history is different from the worker's (it only ever evaluated the
    variations of the worker's earlier histories).  History independence demands that a probe
    gives the same outcome in ANY two histories, so a difference between worker and companion
    is a violation whichever of the two is "right".  The companion is forked from the worker
    before the worker's first run, is driven strictly sequentially by it, and is therefore as
    deterministic as the worker; replaying a worker's runs in a fresh process with a fresh
    companion reproduces both histories.  (Forks are serialised system-wide in this sandbox and
    code runs 2-3x slower in a forked child, so one fork per history was the bottleneck.)"""

    def __init__(self, evaluator):
        self.evaluator = evaluator
        req_r, req_w = os.pipe()
        res_r, res_w = os.pipe()
        pid = os.fork()
        if pid == 0:
            os.close(req_w)
            os.close(res_r)
            try:
                signal.signal(signal.SIGINT, signal.SIG_IGN)
                while True:
                    try:
                        probe = _read_msg(req_r)
                    except EOFError:
                        break
                    try:
                        out = ("result", evaluator(probe))
                    except BaseException as e:  # noqa: BLE001
                        import traceback
                        out = ("harness-error", "".join(traceback.format_exception(e))[-3000:])
                    _write_msg(res_w, out)
            finally:
                os._exit(0)
        os.close(req_r)
        os.close(res_w)
        self.pid = pid
        self.owner = os.getpid()
        self.req_w = req_w
        self.res_r = res_r
        self.asked = 0

    def ask(self, probe):
        _write_msg(self.req_w, probe)
        try:
            kind, val = _read_msg(self.res_r)
        except EOFError:
            raise RuntimeError("companion process died") from None
        if kind != "result":
            raise RuntimeError("companion: " + str(val))
        self.asked += 1
        return val

    def close(self):
        try:
            os.close(self.req_w)
            os.close(self.res_r)
            os.waitpid(self.pid, 0)
        except OSError:
            pass


_COMPANION = None


def init_companion(evaluator):
    """(Re)create this process's companion; call while this process is still history-free."""
    global _COMPANION
    if _COMPANION is not None and _COMPANION.owner == os.getpid():
        _COMPANION.close()
    elif _COMPANION is not None:
        # inherited from the parent: just drop our copies of its pipe ends
        for fd in (_COMPANION.req_w, _COMPANION.res_r):
            try:
                os.close(fd)
            except OSError:
                pass
    _COMPANION = Companion(evaluator)
    return _COMPANION


def companion():
    if _COMPANION is None or _COMPANION.owner != os.getpid():
        raise RuntimeError("companion process was not initialised in this process before its first run")
    return _COMPANION


_ZYGOTE = None


def init_zygote(evaluator):
    """Create this process's zygote (call before any history is run here)."""
    global _ZYGOTE
    if _ZYGOTE is not None and _ZYGOTE.owner == os.getpid():
        return _ZYGOTE
    _ZYGOTE = Zygote(evaluator)
    _ZYGOTE.owner = os.getpid()
    return _ZYGOTE


def zygote():
    if _ZYGOTE is None or _ZYGOTE.owner not in (os.getpid(), os.getppid()):
        raise RuntimeError("pristine zygote was not initialised in this process before its first run")
    return _ZYGOTE

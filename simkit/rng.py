"""Seeded PRNG streams.

One integer decides everything: every stream is derived from (seed, label
path) with blake2b, so a stream's draws do not depend on how many draws other
streams made (removing an operation while minimising does not shift the
choices of the others) and never on PYTHONHASHSEED.
"""
from __future__ import annotations

import hashlib
import random


def _h(*parts) -> int:
    m = hashlib.blake2b(digest_size=8)
    for p in parts:
        m.update(repr(p).encode("utf-8", "backslashreplace"))
        m.update(b"\x00")
    return int.from_bytes(m.digest(), "big")


def derive(seed: int, *label) -> int:
    """A 63-bit integer derived from seed and label."""
    return _h(seed, *label) >> 1


class Rng:
    __slots__ = ("seed", "label", "_r", "draws")

    def __init__(self, seed: int, label: tuple = ()):
        self.seed = seed
        self.label = label
        self._r = random.Random(_h(seed, *label))
        self.draws = 0

    def fork(self, *label) -> "Rng":
        return Rng(self.seed, self.label + tuple(label))

    # -- draws ---------------------------------------------------------
    def random(self) -> float:
        self.draws += 1
        return self._r.random()

    def chance(self, p: float) -> bool:
        self.draws += 1
        return self._r.random() < p

    def randrange(self, a: int, b: int | None = None) -> int:
        self.draws += 1
        return self._r.randrange(a, b) if b is not None else self._r.randrange(a)

    def randint(self, a: int, b: int) -> int:
        self.draws += 1
        return self._r.randint(a, b)

    def choice(self, seq):
        self.draws += 1
        return seq[self._r.randrange(len(seq))]

    def weighted(self, pairs):
        """pairs: sequence of (item, weight)."""
        self.draws += 1
        total = sum(w for _, w in pairs)
        x = self._r.random() * total
        acc = 0.0
        for item, w in pairs:
            acc += w
            if x < acc:
                return item
        return pairs[-1][0]

    def sample(self, seq, k: int):
        self.draws += 1
        return self._r.sample(list(seq), k)

    def shuffle(self, lst) -> None:
        self.draws += 1
        self._r.shuffle(lst)

    def uniform(self, a: float, b: float) -> float:
        self.draws += 1
        return self._r.uniform(a, b)


def digest(obj) -> str:
    """Stable short digest of a JSON-like / repr-able object."""
    m = hashlib.blake2b(digest_size=10)
    m.update(repr(obj).encode("utf-8", "backslashreplace"))
    return m.hexdigest()

"""SimClock: the wall clock seen by liquid (distinct from SimLoop virtual time).

``install()`` replaces the module global ``datetime`` in ``liquid.context``,
``liquid.builtin.filters.misc`` and ``dateutil.parser._parser`` with a shim
module whose ``datetime.now()/utcnow()/today()`` and ``date.today()`` read
``CLOCK``.  The shim classes subclass the real ones and accept real instances
in ``isinstance`` (metaclass ``__instancecheck__``), so
``isinstance(x, (datetime.datetime, datetime.date))`` in the ``date`` filter is
unchanged.  No edit to /repo is needed.
"""
from __future__ import annotations

import datetime as _real
import os
import time
import types

EPOCH_US = 1_700_000_000_000_000   # 2023-11-14T22:13:20Z


class SimClock:
    def __init__(self):
        self.us = EPOCH_US
        self.reads = 0

    def set(self, us):
        self.us = int(us)

    def advance(self, us):
        self.us += int(us)

    def seconds(self):
        return self.us / 1_000_000


CLOCK = SimClock()


class _Meta(type):
    def __instancecheck__(cls, obj):
        return isinstance(obj, cls.__real__)

    def __subclasscheck__(cls, sub):
        return issubclass(sub, cls.__real__)


class SimDateTime(_real.datetime, metaclass=_Meta):
    __real__ = _real.datetime

    @classmethod
    def now(cls, tz=None):
        CLOCK.reads += 1
        if tz is None:
            return _real.datetime(1970, 1, 1) + _real.timedelta(microseconds=CLOCK.us)
        return _real.datetime.fromtimestamp(0, tz) + _real.timedelta(microseconds=CLOCK.us)

    @classmethod
    def utcnow(cls):
        return cls.now()

    @classmethod
    def today(cls):
        return cls.now()


class SimDate(_real.date, metaclass=_Meta):
    __real__ = _real.date

    @classmethod
    def today(cls):
        CLOCK.reads += 1
        return (_real.datetime(1970, 1, 1) + _real.timedelta(microseconds=CLOCK.us)).date()


def _shim_module():
    m = types.ModuleType("datetime")
    for k in dir(_real):
        if not k.startswith("__"):
            setattr(m, k, getattr(_real, k))
    m.datetime = SimDateTime
    m.date = SimDate
    return m


_installed = False


def install():
    """Idempotent.  Also pins the local time zone to UTC."""
    global _installed
    if _installed:
        return CLOCK
    os.environ["TZ"] = "UTC"
    time.tzset()
    shim = _shim_module()
    import sys

    import dateutil.parser._parser as dparser
    import liquid  # noqa: F401
    import liquid.builtin.filters.misc  # noqa: F401
    import liquid.context  # noqa: F401
    import liquid.extra  # noqa: F401
    mods = [m for n, m in sorted(sys.modules.items()) if m is not None and (n == "liquid" or n.startswith("liquid."))]
    mods.append(dparser)
    try:
        # the number / date formatting filters hand 'now' to babel as None, and babel.dates then reads the
        # clock itself (datetime.datetime.now(UTC) in babel.dates._get_datetime)
        import babel.dates as bdates
        mods.append(bdates)
    except ImportError:
        pass
    # whatever import style a module uses (``import datetime``, ``from datetime import
    # datetime``), every module-level reference to the real module/classes is redirected
    for mod in mods:
        for k, v in list(vars(mod).items()):
            if v is _real:
                setattr(mod, k, shim)
            elif v is _real.datetime:
                setattr(mod, k, SimDateTime)
            elif v is _real.date:
                setattr(mod, k, SimDate)
    _installed = True
    return CLOCK

"""F14: FileSystemLoader._read reads the text and THEN stats the file.  An edit that lands between
the two storage calls is cached as (old text, new mtime): the caching loader then believes the stale
template is up to date for ever, although auto_reload is on.  Run with PYTHONPATH=<repo>.
Exit 1 (prints STALE) on the defective code, exit 0 (prints PASS) when the mtime is taken first."""
import os
import sys
import tempfile
from pathlib import PosixPath

import liquid.builtin.loaders.file_system_loader as m
from liquid import CachingFileSystemLoader, Environment

root = tempfile.mkdtemp()
path = os.path.join(root, "a.liquid")


def write(text, mtime):
    with open(path, "w") as f:
        f.write(text)
    os.utime(path, (mtime, mtime))


class RacingPath(PosixPath):
    """The editor saves a new version at one precise instant: after the loader has read the text."""
    armed = False
    seen_open = False

    def open(self, *a, **k):
        fd = super().open(*a, **k)
        if RacingPath.armed and self.name == "a.liquid":
            RacingPath.seen_open = True
            real_read = fd.read

            def read(*ra):
                data = real_read(*ra)
                if RacingPath.armed:
                    RacingPath.armed = False
                    write("version 2", 2000)       # the edit lands right after the read
                return data
            fd.read = read
        return fd


m.Path = RacingPath
write("version 1", 1000)
env = Environment(loader=CachingFileSystemLoader(root, auto_reload=True))
RacingPath.armed = True
first = env.get_template("a.liquid").render()       # overlaps the edit: either version is fine
later = [env.get_template("a.liquid").render() for _ in range(3)]   # long after the edit
print("first:", first, "| later:", later)
if any(x != "version 2" for x in later):
    print("STALE: auto_reload is on, the edit is long over, and the old text is still served")
    sys.exit(1)
print("PASS")

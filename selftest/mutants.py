"""Sensitivity mutants: small, realistic, test-suite-passing edits to jg-rp/liquid,
one per line of the table, each expected to make the named check report a
VIOLATION.  `make` materialises them as patches under selftest/mutants/<prop>/;
`run` applies each to a scratch copy of /repo/liquid (never to /repo itself),
points the check at the copy (VERIF_REPO) and records the verdict in
selftest/results.json.  Usage:  python3 selftest/mutants.py run [PROP ...]
"""
import json
import os
import shutil
import subprocess
import sys
import tempfile
import time

HERE = os.path.dirname(os.path.abspath(__file__))
VERIF = os.path.dirname(HERE)
REPO = "/repo"

M = {}


def mut(prop, name, file, old, new, note=""):
    M.setdefault(prop, []).append({"name": name, "file": file, "old": old, "new": new, "note": note})


# ---------------------------------------------------------------- C24
L = "liquid/utils/lru_cache.py"
mut("C24", "setitem_unlocked", L,
    "    def __setitem__(self, key: _KT, value: _VT) -> None:\n        with self._lock:\n            return super().__setitem__(key, value)",
    "    def __setitem__(self, key: _KT, value: _VT) -> None:\n        return super().__setitem__(key, value)",
    "needs two writers interleaved between the capacity test and the insert")
mut("C24", "evict_most_recent", L, "self._cache.popitem(last=False)", "self._cache.popitem(last=True)")
mut("C24", "capacity_off_by_one", L, "if len(self._cache) >= self.capacity:", "if len(self._cache) > self.capacity:")
mut("C24", "getitem_no_refresh", L,
    "        value = self._cache[key]  # This will raise a KeyError if key is not cached\n        self._cache.move_to_end(key)\n        return value",
    "        value = self._cache[key]  # This will raise a KeyError if key is not cached\n        return value")
mut("C24", "keys_not_reversed", L,
    "        \"\"\"Return an iterator over this cache's keys.\"\"\"\n        return reversed(self._cache.keys())",
    "        \"\"\"Return an iterator over this cache's keys.\"\"\"\n        return iter(self._cache.keys())")
mut("C24", "contains_refreshes", L,
    "    def __contains__(self, key: _KT) -> bool:\n        return key in self._cache",
    "    def __contains__(self, key: _KT) -> bool:\n        if key in self._cache:\n            self._cache.move_to_end(key)\n            return True\n        return False")
mut("C24", "threadsafe_values_lazy_again", L,
    "            return iter(list(super().values()))", "            return super().values()",
    "needs a writer between two next() calls of a values() listing")
mut("C24", "get_bypasses_lock", L,
    "        # NOTE: self.__getitem__ is already acquiring the lock.\n        try:\n            return self[key]\n        except KeyError:\n            return default",
    "        try:\n            return LRUCache.__getitem__(self, key)\n        except KeyError:\n            return default",
    "ThreadSafeLRUCache.get reads and refreshes without the lock: needs a concurrent delete between read and move_to_end")

mut("C17", "oserror_means_notfound_again", "liquid/builtin/loaders/file_system_loader.py",
    "                if err.errno in _BAD_NAME_ERRNOS:\n                    continue\n                raise",
    "                continue",
    "F15 again: a render hit by a transient storage error, then any render of the same name through a caching choice loader")

# ---------------------------------------------------------------- C23
X = "liquid/builtin/loaders/mixins.py"
mut("C23", "oserror_means_notfound_again", "liquid/builtin/loaders/file_system_loader.py",
    "                if err.errno in _BAD_NAME_ERRNOS:\n                    continue\n                raise",
    "                continue",
    "F15 again: needs an injected EIO/EACCES/EMFILE while a choice loader resolves a name that a later delegate also knows")
mut("C23", "sync_check_then_act", X,
    "        try:\n            cached_template = self.cache[cache_key]\n        except KeyError:\n            template = load_func()\n            self.cache[cache_key] = template\n            return template\n\n        if self.auto_reload and not cached_template.is_up_to_date():",
    "        if cache_key not in self.cache:\n            template = load_func()\n            self.cache[cache_key] = template\n            return template\n\n        cached_template = self.cache[cache_key]\n        if self.auto_reload and not cached_template.is_up_to_date():",
    "sync path only: membership test and lookup are two steps; needs another THREAD evicting the key in between")
mut("C23", "fs_read_then_stat_again", "liquid/builtin/loaders/file_system_loader.py",
    "        mtime = source_path.stat().st_mtime\n        with source_path.open(encoding=self.encoding) as fd:\n            source = fd.read()\n        return source, mtime",
    "        with source_path.open(encoding=self.encoding) as fd:\n            source = fd.read()\n        return source, source_path.stat().st_mtime",
    "F14 again: needs an edit from another thread between the read and the stat of one load")
mut("C23", "cache_key_ignores_namespace_kwarg", X,
    "        with suppress(KeyError):\n            return f\"{args[self.namespace_key]}/{name}\"\n",
    "",
    "namespace given by keyword is ignored by the cache key: two namespaces share a slot")
mut("C23", "context_before_args", X,
    "        # Args take priority over context variables.\n        with suppress(KeyError):\n            return f\"{args[self.namespace_key]}/{name}\"\n\n        if context is None:\n            return name\n\n        try:\n            return f\"{context.globals[self.namespace_key]}/{name}\"\n        except KeyError:\n            return name",
    "        if context is not None:\n            with suppress(KeyError):\n                return f\"{context.globals[self.namespace_key]}/{name}\"\n\n        with suppress(KeyError):\n            return f\"{args[self.namespace_key]}/{name}\"\n\n        return name",
    "only differs when a request has both a context namespace and a keyword namespace")
mut("C23", "no_reload_check_when_globals_given", X,
    "        if self.auto_reload and not cached_template.is_up_to_date():",
    "        if self.auto_reload and not globals and not cached_template.is_up_to_date():",
    "sync path: a request with globals never notices an edit")
mut("C23", "placeholder_before_await", X,
    "        except KeyError:\n            template = await load_func()\n            self.cache[cache_key] = template\n            return template\n\n        if self.auto_reload and not await cached_template.is_up_to_date_async():",
    "        except KeyError:\n            self.cache[cache_key] = None  # type: ignore\n            template = await load_func()\n            self.cache[cache_key] = template\n            return template\n\n        if self.auto_reload and not await cached_template.is_up_to_date_async():",
    "needs a second request, a failed load or a cancellation while the first load is suspended")
mut("C23", "uptodate_ge", "liquid/builtin/loaders/file_system_loader.py",
    "            return mtime == source_path.stat().st_mtime", "            return mtime >= source_path.stat().st_mtime",
    "only an edit whose mtime moves backwards is missed")
mut("C23", "async_swapped_again", X,
    "        return await self._check_cache_async(\n            env,\n            cache_key,\n            globals,\n            partial(\n                super().load_async,  # type: ignore\n                env,\n                name,",
    "        return await self._check_cache_async(\n            env,\n            name,\n            globals,\n            partial(\n                super().load_async,  # type: ignore\n                env,\n                cache_key,")
mut("C23", "stale_globals_again", X,
    "        if self.auto_reload and not await cached_template.is_up_to_date_async():\n            template = await load_func()\n            self.cache[cache_key] = template\n            return template\n\n        if globals is not None:",
    "        if self.auto_reload and not await cached_template.is_up_to_date_async():\n            template = await load_func()\n            self.cache[cache_key] = template\n            return template\n\n        if globals:",
    "async path only: request without globals after a request with globals")
mut("C23", "reload_not_stored", X,
    "        if self.auto_reload and not cached_template.is_up_to_date():\n            template = load_func()\n            self.cache[cache_key] = template\n            return template",
    "        if self.auto_reload and not cached_template.is_up_to_date():\n            return load_func()",
    "transparent on its own (only slower) - expected NOT to be flagged; kept as a false-alarm control",
    )
mut("C23", "async_serves_stale_then_reloads", X,
    "        if self.auto_reload and not await cached_template.is_up_to_date_async():\n            template = await load_func()\n            self.cache[cache_key] = template\n            return template",
    "        if self.auto_reload and not await cached_template.is_up_to_date_async():\n            template = await load_func()\n            self.cache[cache_key] = template\n            return cached_template",
    "stale-while-revalidate: the request after an edit still gets the old version")

# ---------------------------------------------------------------- C22
F = "liquid/builtin/loaders/file_system_loader.py"
P = "liquid/builtin/loaders/package_loader.py"
mut("C22", "fs_no_pardir_test", F,
    "        if os.path.pardir in template_path.parts or template_path.is_absolute():",
    "        if template_path.is_absolute():")
mut("C22", "fs_no_absolute_test", F,
    "        if os.path.pardir in template_path.parts or template_path.is_absolute():",
    "        if os.path.pardir in template_path.parts:")
mut("C22", "fs_symlink_check_unresolved", F,
    "                    resolved = source_path.resolve(strict=False)", "                    resolved = source_path.absolute()",
    "reject_symlinks no longer follows the link it is meant to judge")
mut("C22", "fs_pardir_checked_before_ext", F,
    "        if self.ext and not template_path.suffix:\n            template_path = template_path.with_suffix(self.ext)\n\n        if os.path.pardir in template_path.parts or template_path.is_absolute():\n            raise TemplateNotFoundError(template_name)",
    "        if os.path.pardir in template_path.parts or template_path.is_absolute():\n            raise TemplateNotFoundError(template_name)\n\n        if self.ext and not template_path.suffix:\n            template_path = Path(str(template_path) + self.ext)",
    "control: equivalent reordering, expected NOT to be flagged")
mut("C22", "fs_oserror_leaks_again", F,
    "                if err.errno in _BAD_NAME_ERRNOS:\n                    continue\n                raise",
    "                raise")
mut("C22", "pkg_absolute_again", P,
    "        if os.path.pardir in template_path.parts or template_path.is_absolute():",
    "        if os.path.pardir in template_path.parts:")
mut("C22", "pkg_pardir_string_test", P,
    "        if os.path.pardir in template_path.parts or template_path.is_absolute():",
    "        if template_name.startswith(os.path.pardir) or template_path.is_absolute():",
    "only a leading '..' is rejected: 'sub/../../other/x.liquid' escapes")
mut("C22", "fs_pardir_string_test", F,
    "        if os.path.pardir in template_path.parts or template_path.is_absolute():",
    "        if template_name.startswith(\"../\") or template_path.is_absolute():",
    "only a leading '../' is rejected")

# ---------------------------------------------------------------- C01
mut("C01", "async_for_break_continues", "liquid/builtin/tags/for_tag.py",
    "                    try:\n                        character_count += await self.block.render_async(\n                            context, buffer\n                        )\n                    except ContinueLoop:\n                        continue\n                    except BreakLoop:\n                        break",
    "                    try:\n                        character_count += await self.block.render_async(\n                            context, buffer\n                        )\n                    except (ContinueLoop, BreakLoop):\n                        continue")
mut("C01", "async_tablerow_ignores_cols", "liquid/builtin/tags/tablerow_tag.py",
    "            cols = self._int_or_zero(await self.expression.cols.evaluate_async(context))",
    "            cols = length")
mut("C01", "get_async_asserts_again", "liquid/context.py",
    "        it = iter(path)\n        root = next(it)\n\n        if not isinstance(root, str):\n            if default == UNDEFINED:\n                hint = f\"{root} is undefined\"\n                return self.env.undefined(str(root), hint=hint, token=token)\n            return default\n\n        try:\n            obj = self.scope[root]\n        except (KeyError, TypeError, IndexError):\n            if default == UNDEFINED:\n                hint = f\"{root!r} is undefined\"\n                return self.env.undefined(root, hint=hint, token=token)\n            return default\n\n        for i, segment in enumerate(it):\n            try:\n                obj = await",
    "        it = iter(path)\n        root = next(it)\n        assert isinstance(root, str)\n\n        try:\n            obj = self.scope[root]\n        except (KeyError, TypeError, IndexError):\n            if default == UNDEFINED:\n                hint = f\"{root!r} is undefined\"\n                return self.env.undefined(root, hint=hint, token=token)\n            return default\n\n        for i, segment in enumerate(it):\n            try:\n                obj = await")
mut("C01", "load_async_name_again", "liquid/loader.py",
    "        path = Path(full_name)\n\n        template = env.from_string(\n            source,\n            name=path.name,\n            path=path,\n            globals=globals,\n            matter=matter,\n        )\n\n        template.uptodate = uptodate\n        return template\n\n\nUpToDate",
    "        path = Path(full_name)\n\n        template = env.from_string(\n            source,\n            name=name,\n            path=path,\n            globals=globals,\n            matter=matter,\n        )\n\n        template.uptodate = uptodate\n        return template\n\n\nUpToDate")
# ---------------------------------------------------------------- C17
mut("C17", "date_memo_again", "liquid/builtin/filters/misc.py",
    "@with_environment\n@liquid_filter\ndef date(", "@with_environment\n@liquid_filter\n@__import__(\"functools\").lru_cache(maxsize=10)\ndef date(")
mut("C17", "counters_on_environment", "liquid/context.py",
    "        # A namespace for `increment` and `decrement` counters.\n        self.counters: dict[str, int] = {}",
    "        # A namespace for `increment` and `decrement` counters.\n        if not hasattr(self.env, \"_counters\"):\n            self.env._counters = {}  # type: ignore\n        self.counters: dict[str, int] = self.env._counters  # type: ignore")
mut("C17", "concat_in_place", "liquid/builtin/filters/array.py",
    "    return list(chain(sequence, second_array))",
    "    if isinstance(second_array, list):\n        second_array[0:0] = list(sequence)\n        return second_array\n    return list(chain(sequence, second_array))",
    "mutates the right operand (render data) in place")

# ---------------------------------------------------------------- C11
mut("C11", "tokenizer_drops_comment_delims", "liquid/environment.py",
    "            self.statement_end_string,\n            self.comment_start_string,\n            self.comment_end_string,\n        )\n\n    def add_tag",
    "            self.statement_end_string,\n        )\n\n    def add_tag")
mut("C11", "unescaped_tag_end", "liquid/lex.py",
    "    tag_e = re.escape(tag_end_string)", "    tag_e = tag_end_string",
    "only delimiters containing regex metacharacters in the tag end position break")
mut("C11", "env_eq_like_hash", "liquid/environment.py",
    "    def tokenizer(self) -> Callable[[str], Iterator[Token]]:",
    "    def __eq__(self, other: object) -> bool:\n        return isinstance(other, Environment) and hash(self) == hash(other)\n\n    def tokenizer(self) -> Callable[[str], Iterator[Token]]:",
    "get_parser then hands one environment's parser (tags, mode) to another with equal delimiters")
mut("C11", "liquid_tag_rules_class_level", "liquid/builtin/tags/liquid_tag.py",
    "        comment_start_string = env.comment_start_string.replace(\"{\", \"\")\n",
    "        if not hasattr(LiquidTag, \"_css\"):\n            LiquidTag._css = env.comment_start_string.replace(\"{\", \"\")  # type: ignore\n        comment_start_string = LiquidTag._css  # type: ignore\n",
    "the first environment's comment marker is used by every later environment")
mut("C11", "lexer_memo_key_too_short", "liquid/lex.py",
    "@lru_cache(maxsize=128)\ndef get_lexer(\n    tag_start_string: str = r\"{%\",\n    tag_end_string: str = r\"%}\",\n    statement_start_string: str = r\"{{\",\n    statement_end_string: str = r\"}}\",\n    comment_start_string: str = \"\",\n    comment_end_string: str = \"\",\n) -> Callable[[str], Iterator[Token]]:\n    \"\"\"Return a template lexer using the given tag and statement delimiters.\"\"\"\n    rules = compile_liquid_rules(",
    "_LEXERS: dict = {}\n\n\ndef get_lexer(\n    tag_start_string: str = r\"{%\",\n    tag_end_string: str = r\"%}\",\n    statement_start_string: str = r\"{{\",\n    statement_end_string: str = r\"}}\",\n    comment_start_string: str = \"\",\n    comment_end_string: str = \"\",\n) -> Callable[[str], Iterator[Token]]:\n    \"\"\"Return a template lexer using the given tag and statement delimiters.\"\"\"\n    key = (tag_start_string, tag_end_string, statement_start_string, statement_end_string)\n    if key not in _LEXERS:\n        _LEXERS[key] = _get_lexer(\n            tag_start_string,\n            tag_end_string,\n            statement_start_string,\n            statement_end_string,\n            comment_start_string,\n            comment_end_string,\n        )\n    return _LEXERS[key]\n\n\ndef _get_lexer(\n    tag_start_string: str = r\"{%\",\n    tag_end_string: str = r\"%}\",\n    statement_start_string: str = r\"{{\",\n    statement_end_string: str = r\"}}\",\n    comment_start_string: str = \"\",\n    comment_end_string: str = \"\",\n) -> Callable[[str], Iterator[Token]]:\n    \"\"\"Return a template lexer using the given tag and statement delimiters.\"\"\"\n    rules = compile_liquid_rules(",
    "memo key forgets the comment delimiters: the first environment's comment syntax wins for equal tag/output delimiters")

# ---------------------------------------------------------------- more C01 / C17
mut("C01", "filtered_left_memo_across_await", "liquid/builtin/expressions/filtered.py",
    "    async def evaluate_async(self, left: object, context: RenderContext) -> object:\n        func = context.filter(self.name, token=self.token)\n        positional_args, keyword_args = await self.evaluate_args_async(context)\n",
    "    async def evaluate_async(self, left: object, context: RenderContext) -> object:\n        func = context.filter(self.name, token=self.token)\n        _LAST[id(self)] = left\n        positional_args, keyword_args = await self.evaluate_args_async(context)\n        left = _LAST.pop(id(self), left)\n",
    "the left value is parked in a module-level dict keyed by the node while the filter's arguments are awaited: only two tasks rendering the SAME template with different data, one of them suspended inside a filter argument (async drop), see each other's value")
mut("C01", "filtered_left_memo_across_await__decl", "liquid/builtin/expressions/filtered.py",
    "class FilteredExpression(Expression):", "_LAST: dict = {}\n\n\nclass FilteredExpression(Expression):", "part of the previous mutant")
mut("C01", "async_include_binds_full_name", "liquid/builtin/tags/include_tag.py",
    "                val = await self.var.evaluate_async(context)\n                key = self.alias or template.name.split(\".\")[0]",
    "                val = await self.var.evaluate_async(context)\n                key = self.alias or str(name).split(\".\")[0]",
    "async include binds 'with' to the requested name, not the template's: only names with a directory differ")
mut("C17", "cycles_module_level", "liquid/context.py",
    "        self.tag_namespace: dict[str, Any] = {\n            \"cycles\": {},",
    "        self.tag_namespace: dict[str, Any] = {\n            \"cycles\": _CYCLES,",
    "cycle positions survive in a module-level dict across renders")
mut("C17", "cycles_module_level__decl", "liquid/context.py",
    "class RenderContext:", "_CYCLES: dict = {}\n\n\nclass RenderContext:", "part of the previous mutant")
mut("C17", "sort_in_place", "liquid/builtin/filters/array.py",
    "    try:\n        return sorted(sequence)\n    except TypeError as err:\n        raise FilterError(\"can't sort sequence\", token=None) from err",
    "    try:\n        sequence.sort()  # type: ignore\n        return sequence  # type: ignore\n    except TypeError as err:\n        raise FilterError(\"can't sort sequence\", token=None) from err",
    "cooperates with sort_in_place__nocopy: each looks fine alone")
mut("C17", "sort_in_place__nocopy", "liquid/filter.py",
    "        if isinstance(val, (list, tuple)):\n            val = flatten(val)",
    "        if isinstance(val, list) and not any(isinstance(v, (list, tuple)) for v in val):\n            pass  # nothing to flatten, avoid a copy\n        elif isinstance(val, (list, tuple)):\n            val = flatten(val)",
    "part of the previous mutant")


GROUPS = {  # mutants made of two cooperating edits: applied together under the first name
    ("C01", "filtered_left_memo_across_await"): ["filtered_left_memo_across_await__decl"],
    ("C17", "cycles_module_level"): ["cycles_module_level__decl"],
    ("C17", "sort_in_place"): ["sort_in_place__nocopy"],
}
CONTROLS = {("C23", "reload_not_stored"), ("C22", "fs_pardir_checked_before_ext")}   # equivalent edits: a VIOLATION here is a false alarm


def apply_edit(root, e):
    p = os.path.join(root, e["file"])
    s = open(p, encoding="utf-8").read()
    if s.count(e["old"]) != 1:
        raise SystemExit("mutant %s: anchor found %d times in %s" % (e["name"], s.count(e["old"]), e["file"]))
    open(p, "w", encoding="utf-8").write(s.replace(e["old"], e["new"]))


def scratch_copy():
    d = tempfile.mkdtemp(prefix="lv-mut-", dir="/dev/shm" if os.path.isdir("/dev/shm") else None)
    shutil.copytree(os.path.join(REPO, "liquid"), os.path.join(d, "liquid"),
                    ignore=shutil.ignore_patterns("__pycache__"))
    return d


def entries(prop):
    by = {e["name"]: e for e in M.get(prop, [])}
    parts = {n for (p, _), ns in GROUPS.items() if p == prop for n in ns}
    for e in M.get(prop, []):
        if e["name"] in parts:
            continue
        yield e, [by[n] for n in GROUPS.get((prop, e["name"]), [])]


def make():
    for prop in sorted(M):
        outdir = os.path.join(HERE, "mutants", prop)
        os.makedirs(outdir, exist_ok=True)
        for e, extra in entries(prop):
            d = scratch_copy()
            try:
                subprocess.run(["git", "init", "-q"], cwd=d, check=True)
                subprocess.run(["git", "add", "-A"], cwd=d, check=True)
                subprocess.run(["git", "-c", "user.email=x@x", "-c", "user.name=x", "commit", "-qm", "base"], cwd=d, check=True)
                for x in [e] + extra:
                    apply_edit(d, x)
                diff = subprocess.run(["git", "diff"], cwd=d, check=True, capture_output=True, text=True).stdout
                with open(os.path.join(outdir, e["name"] + ".patch"), "w") as f:
                    f.write("# %s / %s: %s\n" % (prop, e["name"], e["note"]))
                    f.write(diff)
            finally:
                shutil.rmtree(d, ignore_errors=True)
    print("patches written under", os.path.join(HERE, "mutants"))


def run(props, budget="45", suite=False):
    results_path = os.path.join(HERE, "results.json")
    try:
        results = json.load(open(results_path))
    except Exception:
        results = {}
    for prop in props or sorted(M):
        for e, extra in entries(prop):
            d = scratch_copy()
            try:
                for x in [e] + extra:
                    apply_edit(d, x)
                env = dict(os.environ, VERIF_REPO=d)
                t0 = time.time()
                p = subprocess.run([os.path.join(VERIF, "check"), prop, "--tier", "quick", "--no-evidence",
                                    "--budget", budget], env=env, capture_output=True, text=True)
                viol = [ln for ln in p.stdout.splitlines() if ln.startswith("VIOLATION")]
                sigs = [ln.strip() for ln in p.stdout.splitlines() if ln.strip().startswith("oracle=")]
                control = (prop, e["name"]) in CONTROLS
                verdict = "caught" if (p.returncode == 1 and viol) else ("harness" if p.returncode == 2 else "missed")
                results["%s/%s" % (prop, e["name"])] = {
                    "verdict": verdict, "control": control, "exit": p.returncode, "wall_s": round(time.time() - t0, 1),
                    "signatures": sigs[:4], "note": e["note"]}
                print("%-4s %-42s %-8s %s %5.1fs %s" % (prop, e["name"], verdict, "(control)" if control else "",
                                                        time.time() - t0, "; ".join(sigs[:2])), flush=True)
                if verdict == "harness":
                    print(p.stdout[-1500:], p.stderr[-1500:])
            finally:
                shutil.rmtree(d, ignore_errors=True)
            json.dump(results, open(results_path, "w"), indent=1, sort_keys=True)


def suite(props):
    """Does each mutant still pass the repository's own test suite? (it should)"""
    results_path = os.path.join(HERE, "suite_results.json")
    try:
        results = json.load(open(results_path))
    except Exception:
        results = {}
    for prop in props or sorted(M):
        for e, extra in entries(prop):
            d = scratch_copy()
            try:
                for x in [e] + extra:
                    apply_edit(d, x)
                env = dict(os.environ, PYTHONPATH=d, PYTHONSAFEPATH="1")
                p = subprocess.run(["/venv/bin/python", "-B", "-m", "pytest", "-q", "-p", "no:cacheprovider",
                                    "--import-mode=importlib", "--timeout=900", "--continue-on-collection-errors",
                                    "--ignore", "tests/test_compliance.py", "tests"],
                                   cwd=REPO, env=env, capture_output=True, text=True)
                last = [ln for ln in p.stdout.splitlines() if " passed" in ln or " failed" in ln][-1:]
                where = subprocess.run(["/venv/bin/python", "-c", "import liquid;print(liquid.__file__)"], env=env,
                                       capture_output=True, text=True).stdout.strip()
                results["%s/%s" % (prop, e["name"])] = {"summary": last, "liquid_from": where}
                print(prop, e["name"], last, flush=True)
            finally:
                shutil.rmtree(d, ignore_errors=True)
            json.dump(results, open(results_path, "w"), indent=1, sort_keys=True)
    shutil.rmtree(os.path.join(REPO, ".hypothesis"), ignore_errors=True)


if __name__ == "__main__":
    cmd = sys.argv[1] if len(sys.argv) > 1 else "run"
    if cmd == "make":
        make()
    elif cmd == "suite":
        suite(sys.argv[2:])
    else:
        run(sys.argv[2:])

"""Live objects the workload needs at run time: simulator-owned loader, async
drops, data builder, canonical fingerprints and outcome helpers."""
from __future__ import annotations

import asyncio
import dataclasses
import datetime
from collections.abc import Mapping

from liquid.exceptions import TemplateNotFoundError
from liquid.loader import BaseLoader, TemplateSource

from simkit.loop import SimDeadlock, SimStepCap

NS_KEY = "uid"
_DEBUG = bool(__import__("os").environ.get("VERIF_DEBUG"))


class SimDrop(Mapping):
    """A mapping following the documented drop protocol: ``__getitem_async__``
    returns the same item as ``__getitem__`` after a seeded suspension."""

    def __init__(self, data, loop=None, label="drop"):
        self._d = data
        self._loop = loop
        self._label = label

    def _wrap(self, v):
        if isinstance(v, dict):
            return SimDrop(v, self._loop, self._label)
        return v

    def __getitem__(self, k):
        return self._wrap(self._d[k])

    async def __getitem_async__(self, k):
        if self._loop is not None:
            await self._loop.latency(self._label)
        return self._wrap(self._d[k])

    def __iter__(self):
        return iter(self._d)

    def __len__(self):
        return len(self._d)

    def __repr__(self):
        return "SimDrop(%r)" % (self._d,)

    def __str__(self):
        return "SimDrop(%s)" % ",".join(sorted(map(str, self._d)))


class SimListDrop(list):
    """A list whose dict elements are SimDrops (so `objs[0].title` suspends)."""


def _revive(v):
    """JSON-able encodings of values JSON cannot carry: {"__markup__": s} -> Markup(s)."""
    if isinstance(v, dict):
        if len(v) == 1 and "__markup__" in v:
            from markupsafe import Markup
            return Markup(v["__markup__"])
        return {k: _revive(x) for k, x in v.items()}
    if isinstance(v, list):
        return [_revive(x) for x in v]
    return v


def build_data(spec, loop=None):
    """Fresh Python objects for one render from a JSON-able spec."""
    import copy
    out = {}
    for k, v in spec["vars"].items():
        v = _revive(copy.deepcopy(v))
        if k in spec.get("drops", ()):
            if isinstance(v, dict):
                v = SimDrop(v, loop, "drop." + k)
            elif isinstance(v, list):
                v = [SimDrop(x, loop, "drop." + k) if isinstance(x, dict) else x for x in v]
        st = (spec.get("seqtypes") or {}).get(k)
        if st and isinstance(v, list):
            # sequences that are not exactly `list`: still the caller's data, still not to be modified
            import collections
            v = {"deque": collections.deque, "userlist": collections.UserList, "tuple": tuple}[st](v)
        out[k] = v
    for k, v in spec.get("special", {}).items():
        out[k] = build_special(v)
    return out


def build_special(v):
    """Values JSON cannot carry: datetimes (incl. equal instants in different zones)."""
    kind = v[0]
    if kind == "dt":
        return datetime.datetime(*v[1])
    if kind == "dtz":
        tz = datetime.timezone(datetime.timedelta(hours=v[2]))
        return datetime.datetime(*v[1], tzinfo=datetime.timezone.utc).astimezone(tz)
    if kind == "date":
        return datetime.date(*v[1])
    if kind == "nulltrans":
        import gettext
        return gettext.NullTranslations()     # a message catalog handed in by the caller (the `translations` variable)
    raise AssertionError(v)


class StaticSimLoader(BaseLoader):
    """Custom loader over a static, optionally namespaced store; its async path
    suspends for seeded latencies.  ``store``: {(ns, name): source}."""

    def __init__(self, store, loop_ref, style="fs-like", matter=False, namespaced=True, faults=None):
        super().__init__()
        self.faults = dict(faults or {})   # name -> exception kind raised instead of answering (both paths alike)
        self.store = store
        self.loop_ref = loop_ref      # one-element list holding the current SimLoop (or None)
        self.style = style
        self.matter = matter
        self.namespaced = namespaced
        self.loads = 0

    def _ns(self, context, kwargs):
        if not self.namespaced:
            return ""
        if NS_KEY in kwargs:
            return str(kwargs[NS_KEY])
        if context is not None:
            try:
                return str(context.globals[NS_KEY])
            except KeyError:
                return ""
        return ""

    def _lookup(self, name, context, kwargs, is_async):
        self.loads += 1
        if name in self.faults:
            raise make_fault(self.faults[name], name)
        ns = self._ns(context, kwargs)
        key = (ns, name) if (ns, name) in self.store else ("", name)
        try:
            src = self.store[key]
        except KeyError:
            raise TemplateNotFoundError(name) from None
        if self.style == "none":
            up = None
        elif self.style == "sync" or not is_async:
            up = _true
        else:
            loop_ref = self.loop_ref

            async def up():
                if loop_ref[0] is not None:
                    await loop_ref[0].latency("uptodate")
                return True
        full = "%s/%s" % (key[0], name) if key[0] else name
        return TemplateSource(src, full, up, {"m": name} if self.matter else None)

    def get_source(self, env, template_name, *, context=None, **kwargs):
        return self._lookup(template_name, context, kwargs, False)

    async def get_source_async(self, env, template_name, *, context=None, **kwargs):
        loop = self.loop_ref[0]
        if loop is not None:
            await loop.latency("simloader.pre")
        src = self._lookup(template_name, context, kwargs, True)
        if loop is not None:
            await loop.latency("simloader.post")
        return src


def _true():
    return True


def make_fault(kind, name):
    """The exception a faulty backing store answers with."""
    if kind == "OSError":
        return OSError(5, "injected EIO for %s" % name)
    if kind == "UnicodeDecodeError":
        return UnicodeDecodeError("utf-8", b"\xff", 0, 1, "injected")
    if kind == "LiquidSyntaxError":
        from liquid.exceptions import LiquidSyntaxError
        return LiquidSyntaxError("injected", token=None)
    return ValueError("injected for %s" % name)


class SimFilter:
    """A simulator-owned filter following the documented async filter protocol:
    ``filter_async`` returns what ``__call__`` returns after a seeded suspension
    (none of liquid's own filters suspends, so this is what lets a task switch in
    the middle of a filter chain)."""

    def __init__(self, loop_ref, kind):
        self.loop_ref = loop_ref
        self.kind = kind

    def _apply(self, left, args):
        if self.kind == "append":
            return "%s%s" % (left, args[0] if args else "")
        return left

    def __call__(self, left, *args):
        return self._apply(left, args)

    async def filter_async(self, left, *args):
        loop = self.loop_ref[0]
        if loop is not None:
            await loop.latency("filter." + self.kind)
        return self._apply(left, args)


def add_sim_filters(env, loop_ref):
    env.add_filter("slow", SimFilter(loop_ref, "id"))
    env.add_filter("slow_append", SimFilter(loop_ref, "append"))


def outcome(fn):
    """("ok", value) | ("err", exception class name) for a zero-arg callable."""
    try:
        return ("ok", fn())
    except (SimDeadlock, SimStepCap, asyncio.CancelledError, KeyboardInterrupt, SystemExit, MemoryError):
        raise
    except RecursionError:
        return ("err", "RecursionError")
    except BaseException as e:  # noqa: BLE001 - an outcome to be judged
        return ("err", type(e).__name__)


async def outcome_async(coro):
    try:
        return ("ok", await coro)
    except asyncio.CancelledError:
        # cancelled by the simulator (this very task was asked to cancel): propagate; a
        # CancelledError that reaches an operation nobody cancelled is an outcome to be judged
        t = asyncio.current_task()
        if t is not None and t.cancelling():
            raise
        return ("err", "CancelledError")
    except (SimDeadlock, SimStepCap, KeyboardInterrupt, SystemExit, MemoryError):
        raise
    except RecursionError:
        return ("err", "RecursionError")
    except BaseException as e:  # noqa: BLE001
        if _DEBUG:
            import traceback
            traceback.print_exc()
        return ("err", type(e).__name__)


def canon_analysis(a):
    """TemplateAnalysis -> comparable structure *including spans*."""
    out = {}
    for f in dataclasses.fields(a):
        m = getattr(a, f.name)
        out[f.name] = {str(k): [repr(v) for v in vs] for k, vs in m.items()}
    return out


def fingerprint(obj, _depth=0):
    """Type-tagged, order-preserving deep fingerprint of render data."""
    if _depth > 12:
        return ("deep",)
    t = type(obj).__name__
    if obj is None or isinstance(obj, (bool, int, float, str, bytes)):
        return (t, repr(obj))
    if isinstance(obj, SimDrop):
        return ("SimDrop", fingerprint(obj._d, _depth + 1))
    if isinstance(obj, dict):
        return (t, tuple((fingerprint(k, _depth + 1), fingerprint(v, _depth + 1)) for k, v in obj.items()))
    if isinstance(obj, (list, tuple)) or t in ("deque", "UserList"):
        return (t, tuple(fingerprint(x, _depth + 1) for x in obj))
    if isinstance(obj, (datetime.datetime, datetime.date)):
        return (t, obj.isoformat(), repr(getattr(obj, "tzinfo", None)))
    d = getattr(obj, "__dict__", None)
    if isinstance(d, dict) and not callable(obj):
        # any other object the caller hands in: its attributes, not its address
        return ("obj:" + t, tuple((str(k), fingerprint(v, _depth + 1)) for k, v in sorted(d.items(), key=lambda kv: str(kv[0]))))
    return (t, repr(obj))

"""Seeded, hash-order-independent generator of scenarios: template trees,
template sets (partials / parents), render data and environment recipes.

Everything produced here is JSON-able; ``render_source`` turns a tree into
source text for a given delimiter set and ``build_env`` / ``build_data`` turn
recipes into live objects.  The generators are *workload*: what decides a
property is the oracle evaluated over the simulated schedule/fault/history.
"""
from __future__ import annotations

DEFAULT_DELIMS = {"ts": "{%", "te": "%}", "os": "{{", "oe": "}}", "cs": "{#", "ce": "#}"}

FLAG_NAMES = ["logical_not_operator", "logical_parentheses", "ternary_expressions", "keyword_assignment",
              "shorthand_indexes", "string_sequences", "string_first_and_last"]

# ---------------------------------------------------------------------------
# data

DATA_POOL = {
    "x": [3, 0, -2, 7, 1, 1.0, True],
    "y": [2.5, 0.5, 10, -1.5, 0.125, 2.675],
    "tie": [0.125, 1.005, 2.5, "0.125", 0.5, 1.5, -0.125],     # exact ties at the usual formatting precisions
    "n": [1, 2, 5],
    "s": ["hello world", "Hello", "a,b,c", "", "  padded  ", "x<y & \"z\"", "ünï cødé", "1", "3.5", "now", "today"],
    "t": ["<b>bold & \"q\"</b>", "<script>alert(1)</script>", "plain", "line1\nline2",
          "intro <script>var cut = '<b>';", "a</style>b <i>c</i>", "<style>p{}</style><p>x</p><script>"],
    "e": ["", "  "],
    "z": [None],
    "flag": [True, False],
    "off": [False, None, 0, ""],
    "items": [[1, 2, 3, 4, 5], [3, 1, 2], [], [1], [1, 1.0, True, "1"], [5, 4, 3, 2, 1, 0, -1]],
    "words": [["b", "a", "C", "a"], ["x"], [], ["one two", "three", "Four"], ["b", "a", None, "a"]],
    "objs": [
        [{"title": "A", "price": 3, "tags": ["x", "y"], "ok": True},
         {"title": "b", "price": 1, "tags": [], "ok": False},
         {"title": "c", "price": 2, "tags": ["y"], "ok": None}],
        [{"title": "only", "price": 0}],
        [],
        [{"title": "A", "price": 1}, {"title": "a", "price": 1.0}, {"price": True}, {"title": None}],
    ],
    "user": [{"name": "Ann", "age": 30, "address": {"city": "X", "zip": None}, "0": "zero", "size": 9},
             {"name": "<Bob>", "first": "F", "last": "L"}, {}],
    "k": ["name", "age", "missing", "0"],
    "i": [1, 0, -1, 9],
    "nested": [[[1, 2], [3, [4, 5]]], [[], [0]]],
    "ts": [0, 1, 86400, 1700000000, "1700000000", "2024-03-05 10:20:30", "March 5, 2024", "not a date", 1.0, True,
           "14:30", "9am", "March 2021", "Friday"],     # partial dates: completed from "today" every time they are parsed
    "v": ["V", 0, None],
    "g": ["G"],
    # read from the render context by the context-aware extra filters (currency, money, decimal, unit, datetime, t)
    "currency_code": ["USD", "EUR", "JPY"],
    "locale": ["en_US", "de_DE", "fr", "tlh", "xx_XX"],     # the last two: identifiers Babel does not know
    "timezone": ["UTC", "America/New_York", "Asia/Tokyo"],
    "you": ["World", "Ann"],
}
DATA_NAMES = list(DATA_POOL)


def gen_data(rng, drops=False):
    """A JSON-able data spec: {"vars": {...}, "drops": [names wrapped as SimDrop]}."""
    vars_ = {}
    for name in DATA_NAMES:
        if rng.chance(0.85):
            vars_[name] = rng.choice(DATA_POOL[name])
    spec = {"vars": vars_, "drops": []}
    st = {n: rng.choice(["deque", "userlist", "tuple"]) for n in ("items", "words", "objs", "nested")
          if n in vars_ and rng.chance(0.12)}
    if st:
        spec["seqtypes"] = st
    if drops:
        spec["drops"] = [n for n in ("user", "objs", "nested") if n in vars_ and rng.chance(0.6)]
        if rng.chance(0.7):
            spec["drops"].append("drop")
            vars_["drop"] = {"a": 1, "b": {"c": "deep", "d": [1, 2]}, "items": [7, 8, 9], "name": "D"}
    return spec


# ---------------------------------------------------------------------------
# expressions (strings)

STR_LITS = ["'Hello, %(you)s!'", "'a'", "\"b\"", "''", "'hello world'", "'a,b'", "','", "' '", "'%Y-%m-%d'", "'%H:%M'", "'title'",
            "'price'", "'name'", "'x'", "'1'", "'<i>'", "'now'", "'today'", "'é'"]
NUM_LITS = ["0", "1", "2", "3", "-1", "10", "1.5", "0.0", "-2.5", "100"]
CONST_LITS = ["true", "false", "nil", "null"]
# `empty` / `blank` evaluate to expression objects without __repr__: inside a list (cycle keys, macro
# args) they print a memory address, which makes output depend on allocation. Only used in comparisons.
CMP_CONSTS = ["empty", "blank", "nil"]
PATHS = ["x", "y", "n", "s", "t", "e", "z", "flag", "off", "items", "words", "objs", "user", "k", "i", "nested", "v",
         "user.name", "user.age", "user.address.city", "user.address", "user['name']", "user[\"age\"]", "user[k]",
         "items[0]", "items[i]", "items[-1]", "items.first", "items.last", "items.size", "words.first", "words[1]",
         "objs[0].title", "objs.first.price", "objs[1]", "objs[0].tags", "objs[0].tags.first", "objs.size",
         "nested[1][1][0]", "nested[0]", "nested.first.last", "missing", "missing.deep", "user.missing",
         "user.address.zip", "s.size", "s.first", "s.last", "s[0]", "user.size", "user.first", "[k]",
         "['user'].name", "[\"items\"][0]", "user[missing]", "items[missing]", "g", "ts"]
DROP_PATHS = ["drop.a", "drop.b.c", "drop.b.d[1]", "drop.items", "drop.items.first", "drop.name", "drop.missing",
              "drop['a']", "drop[k]", "drop.b", "drop.items.size"]
SHORTHAND_PATHS = ["items.0", "nested.1.0", "objs.0.title", "nested.1.1.0"]
LOOP_PATHS = ["forloop.index", "forloop.index0", "forloop.rindex", "forloop.first", "forloop.last", "forloop.length",
              "forloop.parentloop.index", "forloop.name"]
TABLE_PATHS = ["tablerowloop.col", "tablerowloop.row", "tablerowloop.col_first", "tablerowloop.index",
               "tablerowloop.col_last", "tablerowloop.last", "tablerowloop.col0", "tablerowloop.length"]

# name -> list of argument kinds ("?" prefix = optional)
FILTERS = {
    "abs": [], "append": ["s"], "at_least": ["n"], "at_most": ["n"], "base64_encode": [], "base64_decode": [],
    "base64_url_safe_encode": [], "base64_url_safe_decode": [], "capitalize": [], "ceil": [], "compact": ["?key"],
    "concat": ["arr"], "date": ["fmt"], "default": ["any", "?allow_false"], "divided_by": ["n"], "downcase": [],
    "escape": [], "escape_once": [], "first": [], "floor": [], "join": ["?s"], "last": [], "lstrip": [],
    "map": ["key"], "minus": ["n"], "modulo": ["n"], "newline_to_br": [], "plus": ["n"], "prepend": ["s"],
    "remove": ["s"], "remove_first": ["s"], "remove_last": ["s"], "replace": ["s", "?s"], "replace_first": ["s", "s"],
    "replace_last": ["s", "s"], "reverse": [], "round": ["?n"], "rstrip": [], "safe": [], "size": [],
    "slice": ["n", "?n"], "sort": ["?key"], "sort_natural": ["?key"], "split": ["s"], "strip": [], "strip_html": [],
    "strip_newlines": [], "sum": ["?key"], "times": ["n"], "truncate": ["n", "?s"], "truncatewords": ["n", "?s"],
    "uniq": ["?key"], "upcase": [], "url_decode": [], "url_encode": [], "where": ["key", "?any"],
    "find": ["key", "any"], "find_index": ["key", "any"], "has": ["key", "?any"], "reject": ["key", "?any"],
    "squish": [], "escapejs": [],
}
EXTRA_FILTERS = {
    "json": [], "index": ["any"], "sort_numeric": ["?key"], "script_tag": [], "stylesheet_tag": [], "t": ["?tkw"],
    "gettext": ["?tkw"], "decimal": [], "currency": [], "money": [], "unit": ["s"], "datetime": [],
}
ARRAY_IN = ["items", "words", "objs", "nested", "objs[0].tags", "(1..3)", "s"]
STRING_IN = ["s", "t", "e", "user.name", "'a b c'", "'x<y'"]
NUMBER_IN = ["x", "y", "n", "i", "3", "2.5", "'4'", "items.size", "tie", "0.125"]
FILTER_INPUT_HINT = {  # which kind of left operand makes the filter do something interesting
    "compact": ARRAY_IN, "concat": ARRAY_IN, "first": ARRAY_IN, "join": ARRAY_IN, "last": ARRAY_IN, "map": ["objs"],
    "reverse": ARRAY_IN, "sort": ARRAY_IN, "sort_natural": ARRAY_IN, "sum": ARRAY_IN, "uniq": ARRAY_IN,
    "where": ["objs"], "find": ["objs"], "find_index": ["objs"], "has": ["objs"], "reject": ["objs"],
    "index": ARRAY_IN, "sort_numeric": ARRAY_IN, "size": ARRAY_IN + STRING_IN,
    "date": ["ts", "s", "'now'", "'today'", "1", "1.0", "true", "x"], "datetime": ["ts"],
    "abs": NUMBER_IN, "at_least": NUMBER_IN, "at_most": NUMBER_IN, "ceil": NUMBER_IN, "floor": NUMBER_IN,
    "divided_by": NUMBER_IN, "minus": NUMBER_IN, "modulo": NUMBER_IN, "plus": NUMBER_IN, "times": NUMBER_IN,
    "round": NUMBER_IN, "decimal": NUMBER_IN, "currency": NUMBER_IN, "money": NUMBER_IN, "unit": NUMBER_IN,
    "t": ["'Hello, %(you)s!'", "s"], "gettext": ["'Hello, %(you)s!'", "s"],
}


SIM_FILTERS = {"slow": [], "slow_append": ["s"]}


class ExprGen:
    def __init__(self, rng, flags, extra, drops=False, simfilters=False):
        self.rng = rng
        self.flags = flags
        self.extra = extra
        self.drops = drops
        self.simfilters = simfilters
        self.scope = []        # extra variable names in scope (loop vars, assigns, macro params)
        self.in_for = 0
        self.in_table = 0

    def path(self):
        r = self.rng
        pools = [(PATHS, 10)]
        if self.scope:
            pools.append((self.scope, 6))
        if self.drops:
            pools.append((DROP_PATHS, 5))
        if self.in_for:
            pools.append((LOOP_PATHS, 3))
        if self.in_table:
            pools.append((TABLE_PATHS, 2))
        if self.flags.get("shorthand_indexes"):
            pools.append((SHORTHAND_PATHS, 2))
        pool = r.weighted(pools)
        p = r.choice(pool)
        if p in self.scope and r.chance(0.3):
            p += r.choice([".title", ".price", "[0]", ".size", ".first", ".name", "[k]"])
        return p

    def literal(self, allow_range=False):
        r = self.rng
        kind = r.weighted([("s", 4), ("n", 4), ("c", 2), ("r", 1 if allow_range else 0)])
        if kind == "s":
            return r.choice(STR_LITS)
        if kind == "n":
            return r.choice(NUM_LITS)
        if kind == "c":
            return r.choice(CONST_LITS)
        return "(%s..%s)" % (r.choice(["1", "0", "x", "n", "-1", "3"]), r.choice(["3", "5", "x", "n", "items.size", "0"]))

    def primary(self, allow_range=False):
        return self.path() if self.rng.chance(0.7) else self.literal(allow_range)

    def arg(self, kind):
        r = self.rng
        if kind == "s":
            return r.choice(STR_LITS + ["s", "user.name", "k"])
        if kind == "n":
            return r.choice(NUM_LITS + ["x", "n", "i", "y", "'2'"])
        if kind == "key":
            return r.choice(["'title'", "'price'", "'tags'", "'ok'", "'name'", "'missing'", "k"])
        if kind == "arr":
            return r.choice(["items", "words", "objs", "nested", "s", "missing", "objs[0].tags"])
        if kind == "fmt":
            return r.choice(["'%Y-%m-%d'", "'%Y'", "'%H:%M:%S'", "'%a, %b %d, %y'", "'%s'", "'%j %Z %z'", "''", "s",
                             "'%Y-%m-%d %H:%M:%S.%f'"])
        if kind == "tkw":
            return "you: %s" % r.choice(["s", "user.name", "'Bob'", "x"])
        if kind == "allow_false":
            sep = "=" if self.flags.get("keyword_assignment") and r.chance(0.3) else ":"
            return "allow_false%s %s" % (sep, r.choice(["true", "false", "flag"]))
        return self.primary()

    def filt(self, left_hint=None):
        r = self.rng
        table = dict(FILTERS)
        if self.extra:
            table.update(EXTRA_FILTERS)
        names = sorted(table)
        if self.simfilters and r.chance(0.3):
            table = dict(table, **SIM_FILTERS)
            names = sorted(SIM_FILTERS)
        name = r.choice(names)
        args = []
        for k in table[name]:
            if k.startswith("?"):
                if not r.chance(0.5):
                    break
                k = k[1:]
            args.append(self.arg(k))
        return name, ("%s: %s" % (name, ", ".join(args)) if args else name)

    def filtered(self, max_filters=3):
        r = self.rng
        n = r.weighted([(0, 3), (1, 5), (2, 3), (3, 1)])
        n = min(n, max_filters)
        if n == 0:
            return self.primary(allow_range=True)
        first_name, first = self.filt()
        hint = FILTER_INPUT_HINT.get(first_name)
        left = r.choice(hint) if hint and r.chance(0.75) else self.primary(allow_range=True)
        parts = [left, first]
        for _ in range(n - 1):
            parts.append(self.filt()[1])
        return " | ".join(parts)

    def comparison(self):
        r = self.rng
        op = r.choice(["==", "!=", "<>", "<", ">", "<=", ">=", "contains"])
        if r.chance(0.15):
            return "%s %s %s" % (self.primary(), r.choice(["==", "!=", "<>"]), r.choice(CMP_CONSTS))
        return "%s %s %s" % (self.primary(), op, self.primary())

    def condition(self, depth=0):
        r = self.rng
        kind = r.weighted([("truthy", 3), ("cmp", 5), ("and", 2 if depth < 2 else 0), ("or", 2 if depth < 2 else 0),
                           ("not", 1 if self.flags.get("logical_not_operator") else 0),
                           ("paren", 1 if self.flags.get("logical_parentheses") and depth < 2 else 0)])
        if kind == "truthy":
            return self.primary()
        if kind == "cmp":
            return self.comparison()
        if kind in ("and", "or"):
            return "%s %s %s" % (self.condition(depth + 1), kind, self.condition(depth + 1))
        if kind == "not":
            return "not " + self.condition(depth + 1)
        return "(%s)" % self.condition(depth + 1)

    def output_expr(self):
        """Expression for {{ }}, echo and assign (ternaries allowed by flag)."""
        r = self.rng
        if self.flags.get("ternary_expressions") and r.chance(0.25):
            e = "%s if %s" % (self.filtered(2), self.condition(1))
            if r.chance(0.7):
                e += " else %s" % self.filtered(2)
            if r.chance(0.3):
                e += " || %s" % self.filt()[1]
            return e
        return self.filtered()

    def kwargs(self, names=("k", "v", "p", "q")):
        r = self.rng
        out = []
        for nm in r.sample(list(names), r.randint(1, min(2, len(names)))):
            sep = "=" if self.flags.get("keyword_assignment") and r.chance(0.3) else ":"
            out.append("%s%s %s" % (nm, sep, self.primary()))
        return ", ".join(out)


# ---------------------------------------------------------------------------
# template trees

TEXTS = ["", " ", "\n", "text ", "a b", "<p>", "</p>\n", "  x  ", "{ % }", "é", "-", "1 < 2", "\n\n  ",
         "dos\r\nline", "mac\rline"]


class TreeGen:
    def __init__(self, rng, flags, extra, partials=(), parents=(), drops=False, template_comments=False,
                 max_depth=3, budget=22, stateful_bias=1.0, allow_loaders=True, simfilters=False):
        self.rng = rng
        self.ex = ExprGen(rng, flags, extra, drops, simfilters)
        self.flags = flags
        self.extra = extra
        self.partials = list(partials)
        self.parents = list(parents)
        self.template_comments = template_comments
        self.max_depth = max_depth
        self.budget = budget
        self.stateful_bias = stateful_bias
        self.allow_loaders = allow_loaders
        self.macros = []
        self.no_include = 0
        self.block_names = 0

    def wc(self):
        r = self.rng
        return r.weighted([("", 8), ("-", 1), ("l", 1), ("r", 1)])

    def template(self):
        nodes = self.body(0)
        return nodes

    def body(self, depth, n=None):
        r = self.rng
        n = n if n is not None else r.randint(1, 4 if depth else 6)
        out = []
        for _ in range(n):
            if self.budget <= 0:
                break
            out.append(self.node(depth))
        return out

    def node(self, depth):
        r = self.rng
        self.budget -= 1
        sb = self.stateful_bias
        deep = depth < self.max_depth
        choices = [
            ("text", 6), ("out", 10), ("assign", 4), ("capture", 2 if deep else 0), ("echo", 2),
            ("if", 5 if deep else 0), ("unless", 2 if deep else 0), ("case", 2 if deep else 0),
            ("for", 5 if deep else 0), ("tablerow", 2 if deep else 0),
            ("cycle", 2 * sb if self.ex.in_for else 0.5 * sb), ("increment", 1.5 * sb), ("decrement", 1 * sb),
            ("ifchanged", 2 * sb if self.ex.in_for and deep else 0),
            # outside a loop too: an interrupt in a partial reaches (include) or must not reach (render) the
            # caller's loop, at top level it is an error
            ("break", 1.5 if self.ex.in_for or self.ex.in_table else 0.35),
            ("continue", 1.5 if self.ex.in_for or self.ex.in_table else 0.35), ("comment", 1), ("raw", 1), ("inline", 1), ("doc", 0.3),
            ("tcomment", 1 if self.template_comments else 0), ("liquid", 2 if deep else 0),
            ("include", 3 if self.partials and self.allow_loaders and not self.no_include else 0),
            ("render", 3 if self.partials and self.allow_loaders else 0),
        ]
        if self.extra:
            choices += [("macro", 2 if deep else 0), ("call", 2.5 if self.macros else 0.3),
                        ("with", 2 if deep else 0), ("translate", 1)]
        kind = r.weighted(choices)
        return getattr(self, "n_" + kind)(depth)

    # -- leaves -----------------------------------------------------------------
    def n_text(self, depth):
        return ["text", self.rng.choice(TEXTS)]

    def n_out(self, depth):
        return ["out", self.ex.output_expr(), self.wc()]

    def n_assign(self, depth):
        name = self.rng.choice(["a1", "a2", "x", "items", "acc"])
        expr = self.ex.output_expr()
        if name not in self.ex.scope:
            self.ex.scope.append(name)
        return ["tag", "assign", "%s = %s" % (name, expr), self.wc()]

    def n_echo(self, depth):
        return ["tag", "echo", self.ex.output_expr(), self.wc()]

    def n_cycle(self, depth):
        r = self.rng
        vals = ", ".join(r.choice(["'a'", "'b'", "'c'", "1", "x", "s"]) for _ in range(r.randint(1, 3)))
        grp = r.choice(["", "", "'g': ", "g1: ", "x: "])
        return ["tag", "cycle", grp + vals, ""]

    def n_increment(self, depth):
        return ["tag", "increment", self.rng.choice(["c", "c2", "x"]), ""]

    def n_decrement(self, depth):
        return ["tag", "decrement", self.rng.choice(["c", "c2", "x"]), ""]

    def _loop_cond(self):
        r = self.rng
        if self.ex.in_table and r.chance(0.6):
            return r.choice(["tablerowloop.col_last", "tablerowloop.col == 2", "tablerowloop.index == 2",
                             "tablerowloop.col_first", "tablerowloop.index0 >= 1", "cell == 2"])
        if self.ex.in_for and r.chance(0.5):
            return r.choice(["forloop.index == 2", "forloop.first", "forloop.last", "forloop.index0 >= 1", "it == 2",
                             "forloop.rindex == 1"])
        return self.ex.condition(1)

    def n_break(self, depth):
        if self.rng.chance(0.25):
            return ["tag", "break", "", ""]
        return ["block", "if", self._loop_cond(), [["tag", "break", "", ""]], [], "endif", ""]

    def n_continue(self, depth):
        if self.rng.chance(0.2):
            return ["tag", "continue", "", ""]
        return ["block", "if", self._loop_cond(), [["tag", "continue", "", ""]], [], "endif", ""]

    def n_comment(self, depth):
        return ["block", "comment", "", [["text", self.rng.choice(["c", "{{ x }}", "{% if %}"])]], [], "endcomment", ""]

    def n_raw(self, depth):
        return ["rawblock", "raw", self.rng.choice(["{{ x }}", "{% if x %}", "r"]), "endraw"]

    def n_doc(self, depth):
        # documentation may mention any markup: nothing in a doc block is parsed or printed
        return ["rawblock", "doc", self.rng.choice([
            "some doc {{ x }}", "use {% comment %} for notes", "wrap in {% raw %} to print {{ braces }}",
            "{% if x %} unbalanced", "plain words", "{{ x | upcase }} and {% assign y = 1 %}"]), "enddoc"]

    def n_inline(self, depth):
        return ["tag", "#", self.rng.choice(["note", "x | y", ""]), ""]

    def n_tcomment(self, depth):
        return ["tcomment", self.rng.choice(["note", " {{ x }} ", ""])]

    def n_translate(self, depth):
        r = self.rng
        if r.chance(0.5):
            return ["rawblock", "translate", "Hello {{ %s }}!" % r.choice(["x", "s", "n"]), "endtranslate"]
        return ["rawblock", "translate count: %s" % r.choice(["x", "n", "i"]),
                "one item{% plural %}{{ count }} items", "endtranslate"]

    # -- blocks -----------------------------------------------------------------
    def n_capture(self, depth):
        name = self.rng.choice(["cap", "a1"])
        body = self.body(depth + 1)
        if name not in self.ex.scope:
            self.ex.scope.append(name)
        return ["block", "capture", name, body, [], "endcapture", self.wc()]

    def n_if(self, depth):
        r = self.rng
        body = self.body(depth + 1)
        clauses = []
        for _ in range(r.weighted([(0, 4), (1, 3), (2, 1)])):
            clauses.append(["elsif", self.ex.condition(), self.body(depth + 1)])
        if r.chance(0.5):
            clauses.append(["else", "", self.body(depth + 1)])
        return ["block", "if", self.ex.condition(), body, clauses, "endif", self.wc()]

    def n_unless(self, depth):
        r = self.rng
        body = self.body(depth + 1)
        clauses = []
        if r.chance(0.3):
            clauses.append(["elsif", self.ex.condition(), self.body(depth + 1)])
        if r.chance(0.4):
            clauses.append(["else", "", self.body(depth + 1)])
        return ["block", "unless", self.ex.condition(), body, clauses, "endunless", self.wc()]

    def n_case(self, depth):
        r = self.rng
        clauses = []
        for _ in range(r.randint(1, 3)):
            vals = [self.ex.primary() for _ in range(r.randint(1, 3))]
            sep = r.choice([", ", " or "])
            clauses.append(["when", sep.join(vals), self.body(depth + 1)])
        if r.chance(0.5):
            clauses.append(["else", "", self.body(depth + 1)])
        return ["block", "case", self.ex.primary(), [["text", r.choice(["", " ", "\n"])]], clauses, "endcase", ""]

    def _loop_args(self, table=False):
        r = self.rng
        args = []
        if r.chance(0.35):
            args.append("limit: %s" % r.choice(["2", "1", "0", "n", "10"]))
        if r.chance(0.35):
            args.append("offset: %s" % r.choice(["1", "0", "2", "n", "continue", "continue"]))
        if table and r.chance(0.7):
            args.append("cols: %s" % r.choice(["2", "1", "3", "n"]))
        if r.chance(0.25):
            args.append("reversed")
        r.shuffle(args)
        return (" " + " ".join(args)) if args else ""

    def n_for(self, depth):
        r = self.rng
        var = r.choice(["it", "row", "it"])
        src = r.choice(["items", "words", "objs", "nested", "(1..3)", "(1..n)", "user", "s", "missing", "objs[0].tags",
                        "items", "objs"] + (["drop.items", "drop.b.d"] if self.ex.drops else []))
        args = self._loop_args()
        self.ex.scope.append(var)
        self.ex.in_for += 1
        body = self.body(depth + 1)
        self.ex.in_for -= 1
        clauses = []
        if r.chance(0.3):
            clauses.append(["else", "", self.body(depth + 1)])
        self.ex.scope.remove(var)
        loop = ["block", "for", "%s in %s%s" % (var, src, args), body, clauses, "endfor", self.wc()]
        x = r.random()
        if x < 0.15:
            # what a loop leaves behind: its variable and `forloop` are read after it has ended
            return ["seq", [loop, ["out", var, ""], ["out", "forloop.index", ""], ["out", "forloop.parentloop.index", ""]]]
        if x < 0.25:
            # the same loop three times with `offset: continue`, the collection empty the second time
            # (the loop key is the source text `it-(1..n)`, so the three share their resume position)
            def again(extra):
                return ["block", "for", "it in (1..n) limit: 2%s" % extra, [["out", "it", ""]], [], "endfor", ""]
            return ["seq", [["tag", "assign", "n = 9", ""], again(""), ["text", "|"], ["tag", "assign", "n = 0", ""],
                            again(", offset: continue"), ["text", "|"], ["tag", "assign", "n = 9", ""],
                            again(", offset: continue"), ["text", "|"], loop]]
        return loop

    def n_tablerow(self, depth):
        r = self.rng
        var = "cell"
        src = r.choice(["items", "words", "objs", "(1..4)", "missing"])
        args = self._loop_args(table=True)
        self.ex.scope.append(var)
        self.ex.in_table += 1
        body = self.body(depth + 1, n=r.randint(1, 2))
        self.ex.in_table -= 1
        self.ex.scope.remove(var)
        return ["block", "tablerow", "%s in %s%s" % (var, src, args), body, [], "endtablerow", ""]

    def n_ifchanged(self, depth):
        return ["block", "ifchanged", "", self.body(depth + 1, n=self.rng.randint(1, 2)), [], "endifchanged", ""]

    def n_with(self, depth):
        r = self.rng
        names = r.sample(["w1", "w2", "x", "s"], r.randint(1, 2))
        args = ", ".join("%s: %s" % (n, self.ex.primary()) for n in names)
        for n in names:
            self.ex.scope.append(n)
        body = self.body(depth + 1)
        for n in names:
            self.ex.scope.remove(n)
        return ["block", "with", args, body, [], "endwith", ""]

    def n_macro(self, depth):
        r = self.rng
        name = "m%d" % len(self.macros)
        params = []
        for p in r.sample(["pa", "pb", "pc"], r.randint(0, 3)):
            params.append(p if r.chance(0.5) else "%s: %s" % (p, self.ex.literal()))
        pnames = [p.split(":")[0] for p in params]
        for p in pnames + ["args", "kwargs"]:
            self.ex.scope.append(p)
        saved_for, self.ex.in_for = self.ex.in_for, 0
        body = self.body(depth + 1)
        self.ex.in_for = saved_for
        for p in pnames + ["args", "kwargs"]:
            self.ex.scope.remove(p)
        self.macros.append((name, pnames))
        sig = name + ("".join(", " + p for p in params))
        return ["block", "macro", sig, body, [], "endmacro", ""]

    def n_call(self, depth):
        r = self.rng
        if self.macros and r.chance(0.9):
            name, pnames = r.choice(self.macros)
        else:
            name, pnames = "nomacro", ["pa"]
        args = [self.ex.primary() for _ in range(r.randint(0, 2))]
        for p in pnames:
            if r.chance(0.4):
                args.append("%s: %s" % (p, self.ex.primary()))
        if r.chance(0.15):
            args.append("zz: 1")
        return ["tag", "call", name + "".join(", " + a for a in args), ""]

    def n_liquid(self, depth):
        r = self.rng
        self.budget += 1
        saved = self.allow_loaders
        lines = []
        for _ in range(r.randint(1, 4)):
            if self.budget <= 0:
                break
            kind = r.weighted([("assign", 3), ("echo", 4), ("if", 2 if depth < self.max_depth else 0),
                               ("for", 2 if depth < self.max_depth else 0), ("cycle", 1), ("increment", 1),
                               ("inline", 1)])
            lines.append(getattr(self, "n_" + kind)(depth + 1))
            self.budget -= 1
        self.allow_loaders = saved
        return ["liquid", self._liquid_ok(lines)]

    def _liquid_ok(self, nodes):
        """Inside a liquid tag only tags are allowed: turn text/out nodes into echo."""
        out = []
        for n in nodes:
            if n[0] == "text":
                continue
            if n[0] == "out":
                out.append(["tag", "echo", n[1], ""])
            elif n[0] == "block":
                out.append(["block", n[1], n[2], self._liquid_ok(n[3]),
                            [[c[0], c[1], self._liquid_ok(c[2])] for c in n[4]], n[5], ""])
            elif n[0] == "tag":
                out.append(n)
        return out

    # -- partials ------------------------------------------------------------------
    def _partial_args(self, tag):
        r = self.rng
        s = ""
        mode = r.weighted([("none", 4), ("with", 3), ("for", 2)])
        if mode == "with":
            s += " with %s" % self.ex.path()
        elif mode == "for":
            s += " for %s" % r.choice(["items", "objs", "words", "nested", "x", "missing"])
        if mode != "none" and r.chance(0.5):
            s += " as %s" % r.choice(["p", "it", "v"])
        if r.chance(0.4):
            s += ", " + self.ex.kwargs()
        return s

    def n_include(self, depth):
        r = self.rng
        name = r.choice(self.partials) if r.chance(0.92) else "nope"
        ref = "'%s'" % name
        if r.chance(0.15):
            ref = "pname"
            return ["seq", [["tag", "assign", "pname = '%s'" % name, ""],
                            ["tag", "include", ref + self._partial_args("include"), ""]]]
        return ["tag", "include", ref + self._partial_args("include"), self.wc()]

    def n_render(self, depth):
        r = self.rng
        name = r.choice(self.partials) if r.chance(0.92) else "nope"
        return ["tag", "render", "'%s'" % name + self._partial_args("render"), self.wc()]


def gen_inheritance(rng, flags, name_base="base"):
    """Parent / child templates exercising extends, block, block.super, required."""
    ex = ExprGen(rng, flags, True)
    nblocks = rng.randint(1, 3)
    bnames = ["b%d" % i for i in range(nblocks)]
    base = [["text", "<"]]
    for b in bnames:
        req = rng.chance(0.2)
        body = [] if req else [["text", "base-%s " % b], ["out", ex.filtered(1), ""]]
        if body and rng.chance(0.5):
            # the parent block has effects on the render (reached through block.super as well)
            body += [["tag", "assign", "fx_%s = 'set-in-%s'" % (b, b), ""], ["tag", "increment", "fxc", ""]]
        base.append(["block", "block", b + (" required" if req else ""), body, [],
                     "endblock" + (" " + b if rng.chance(0.3) else ""), ""])
        base.append(["text", "|"])
    base.append(["text", ">"])
    base += [["out", "fx_%s" % b, ""] for b in bnames] + [["tag", "increment", "fxc", ""]]

    def child(parent, level):
        nodes = [["tag", "extends", "'%s'" % parent, ""]]
        for b in bnames:
            if rng.chance(0.75):
                body = [["text", "L%d-%s " % (level, b)]]
                if rng.chance(0.5):
                    body.append(["out", "block.super", ""])
                if rng.chance(0.5):
                    body.append(["out", ex.filtered(1), ""])
                nodes.append(["block", "block", b, body, [], "endblock", ""])
        if rng.chance(0.3):
            nodes.append(["text", "ignored outside blocks"])
        return nodes
    out = {name_base: base}
    parent = name_base
    for level in range(1, rng.randint(1, 3) + 1):
        nm = "%s_c%d" % (name_base, level)
        out[nm] = child(parent, level)
        parent = nm
    return out, parent   # templates, most-derived name


def gen_broken_inheritance(rng, good_top, block_names=("b0", "b1")):
    """Templates whose inheritance chain FAILS while it is being resolved (missing parent, circular
    extends, duplicate block in a parent, two extends tags), each with more content after the point
    of failure, plus main templates that render a broken one and then a healthy one in the same
    render.  In lax / warn mode rendering carries on after the error, so whatever the failed
    resolution left behind in the render context is observable."""
    def blk(name, label, leak=True):
        body = [["text", "%s-%s " % (label, name)], ["out", "block.super", ""]]
        if leak:
            body.append(["tag", "assign", "leak_%s = '%s'" % (name, label), ""])
        return ["block", "block", name, body, [], "endblock", ""]

    def tail(names):
        return [["text", "~"]] + [["out", "leak_%s" % n, ""] for n in names]
    b = list(block_names)
    t = {
        "brk_orphan": [["tag", "extends", "'brk_nope'", ""]] + [blk(n, "orphan") for n in b] + tail(b),
        "brk_circ_a": [["tag", "extends", "'brk_circ_b'", ""]] + [blk(n, "ca") for n in b] + tail(b),
        "brk_circ_b": [["tag", "extends", "'brk_circ_a'", ""]] + [blk(n, "cb") for n in b[:1]] + tail(b[:1]),
        "brk_dup_parent": [["text", "<"], blk(b[0], "dp", False), ["text", "|"], blk(b[0], "dp2", False), ["text", ">"]],
        "brk_dup_child": [["tag", "extends", "'brk_dup_parent'", ""]] + [blk(n, "dc") for n in b] + tail(b),
        "brk_two_ext": [["tag", "extends", "'%s'" % good_top, ""], ["tag", "extends", "'brk_dup_parent'", ""]]
                       + [blk(n, "te") for n in b] + tail(b),
    }
    broken = ["brk_orphan", "brk_circ_a", "brk_dup_child", "brk_two_ext"]
    mains = []
    for _ in range(2):
        first = rng.choice(broken)
        tag1 = rng.choice(["include", "include", "render"])
        tag2 = rng.choice(["include", "include", "render"])
        then = rng.choice([good_top, good_top, rng.choice(broken)])
        mains.append([["text", "["], ["tag", tag1, "'%s'" % first, ""], ["text", "/"],
                      ["tag", tag2, "'%s'" % then, ""], ["text", "]"]] + tail(b))
    return t, mains, broken


# ---------------------------------------------------------------------------
# rendering a tree to source


def _wc_l(w):
    return "-" if w in ("-", "l") else ""


def _wc_r(w):
    return "-" if w in ("-", "r") else ""


def render_source(nodes, d=DEFAULT_DELIMS):
    out = []
    for n in nodes:
        _render_node(n, d, out)
    return "".join(out)


_DELIM_RE = __import__("re").compile(r"\{\{|\}\}|\{%|%\}")


def _subst_delims(text, d):
    """Rewrite default delimiters inside block text in ONE pass (sequential str.replace would
    re-scan its own output and corrupt delimiters that share characters)."""
    m = {"{{": d["os"], "}}": d["oe"], "{%": d["ts"], "%}": d["te"]}
    return _DELIM_RE.sub(lambda x: m[x.group(0)], text)


def _tag(d, name, args, w=""):
    inner = name + ((" " + args) if args else "")
    return "%s%s %s %s%s" % (d["ts"], _wc_l(w), inner, _wc_r(w), d["te"])


def _render_node(n, d, out):
    k = n[0]
    if k == "text":
        out.append(n[1])
    elif k == "out":
        out.append("%s%s %s %s%s" % (d["os"], _wc_l(n[2]), n[1], _wc_r(n[2]), d["oe"]))
    elif k == "tag":
        out.append(_tag(d, n[1], n[2], n[3]))
    elif k == "seq":
        for c in n[1]:
            _render_node(c, d, out)
    elif k == "block":
        _, name, args, body, clauses, end, w = n
        out.append(_tag(d, name, args, w))
        for c in body:
            _render_node(c, d, out)
        for cn, ca, cb in clauses:
            out.append(_tag(d, cn, ca))
            for c in cb:
                _render_node(c, d, out)
        out.append(_tag(d, end, "", w))
    elif k == "rawblock":
        _, open_, text, end = n
        text = _subst_delims(text, d)
        out.append(_tag(d, open_, ""))
        out.append(text)
        out.append(_tag(d, end, ""))
    elif k == "tcomment":
        out.append("%s%s%s" % (d["cs"], _subst_delims(n[1], d), d["ce"]))
    elif k == "liquid":
        lines = []
        _liquid_lines(n[1], lines, d.get("lc", "#"))
        out.append("%s liquid\n%s\n%s" % (d["ts"], "\n".join(lines), d["te"]))
    else:
        raise AssertionError(k)


def _liquid_lines(nodes, lines, marker="#"):
    """Lines of a {% liquid %} tag.  Its line-comment marker is the environment's
    comment_start_string without '{' when template comments are on (documented
    behaviour of the liquid tag), else '#'."""
    for n in nodes:
        if n[0] == "tag":
            name = marker if n[1] == "#" else n[1]
            lines.append((name + " " + n[2]).rstrip())
        elif n[0] == "block":
            _, name, args, body, clauses, end, _w = n
            lines.append((name + " " + args).rstrip())
            _liquid_lines(body, lines, marker)
            for cn, ca, cb in clauses:
                lines.append((cn + " " + ca).rstrip())
                _liquid_lines(cb, lines, marker)
            lines.append(end)
        elif n[0] == "seq":
            _liquid_lines(n[1], lines, marker)


def count_nodes(nodes):
    c = 0
    for n in nodes:
        c += 1
        if n[0] == "block":
            c += count_nodes(n[3]) + sum(count_nodes(cl[2]) for cl in n[4])
        elif n[0] in ("seq", "liquid"):
            c += count_nodes(n[1])
    return c


def shrink_tree(nodes):
    """Yield smaller trees: drop a node, replace a block by its body."""
    for i in range(len(nodes)):
        yield nodes[:i] + nodes[i + 1:]
    for i, n in enumerate(nodes):
        if n[0] == "block":
            _, name, args, body, clauses, end, w = n
            if name not in ("macro", "block"):
                yield nodes[:i] + body + nodes[i + 1:]
            for sub in shrink_tree(body):
                yield nodes[:i] + [["block", name, args, sub, clauses, end, w]] + nodes[i + 1:]
            for j in range(len(clauses)):
                yield nodes[:i] + [["block", name, args, body, clauses[:j] + clauses[j + 1:], end, w]] + nodes[i + 1:]
                for sub in shrink_tree(clauses[j][2]):
                    cl = clauses[:j] + [[clauses[j][0], clauses[j][1], sub]] + clauses[j + 1:]
                    yield nodes[:i] + [["block", name, args, body, cl, end, w]] + nodes[i + 1:]
        elif n[0] in ("seq", "liquid"):
            for sub in shrink_tree(n[1]):
                if sub or n[0] == "seq":
                    yield nodes[:i] + [[n[0], sub]] + nodes[i + 1:]
        elif n[0] in ("out", "tag") and len(n) > 3 and n[-1]:
            yield nodes[:i] + [n[:-1] + [""]] + nodes[i + 1:]


# ---------------------------------------------------------------------------
# environment recipes


def gen_recipe(rng, extra_p=0.5):
    flags = {f: rng.chance(0.4) for f in FLAG_NAMES}
    return {
        "extra": rng.chance(extra_p),
        "mode": rng.weighted([("strict", 5), ("warn", 1), ("lax", 3)]),
        "undefined": rng.weighted([("default", 6), ("strict", 2), ("debug", 1), ("falsy_strict", 1)]),
        "autoescape": rng.chance(0.25),
        "strict_filters": rng.chance(0.8),
        "template_comments": rng.chance(0.3),
        # comment delimiters configured although template comments stay off (they must then be inert:
        # the liquid tag's line-comment marker stays '#')
        "comment_delims_always": rng.chance(0.3),
        "flags": flags,
        "suppress_blank": rng.chance(0.8),
        "limits": {
            "loop_iteration_limit": rng.weighted([(None, 8), (5, 1), (50, 1)]),
            "output_stream_limit": rng.weighted([(None, 8), (40, 1), (400, 1)]),
            "local_namespace_limit": rng.weighted([(None, 9), (300, 1)]),
            "context_depth_limit": rng.weighted([(30, 19), (3, 1)]),
            "block_nesting_limit": rng.weighted([(30, 8), (2, 1), (3, 2), (5, 1)]),
        },
        "globals": rng.weighted([({}, 5), ({"g": "EG", "site": "S"}, 3)]),
        # the documented way to configure the number / currency filters: register instances with another
        # fallback locale (only with extra=True)
        "babel_default": rng.weighted([(None, 6), ("de", 2), ("fr", 1)]),
    }


_ENV_CLASSES: dict = {}


def build_env(recipe, loader=None, delims=None, subclass=None):
    """Create a fresh Environment (an ad-hoc subclass carrying flags/limits).  `subclass`, if
    given, maps that class to the class actually instantiated (fault injection into construction)."""
    import liquid
    from liquid import Environment, Mode

    und = {"default": liquid.Undefined, "strict": liquid.StrictUndefined, "debug": liquid.DebugUndefined,
           "falsy_strict": getattr(liquid, "FalsyStrictUndefined", liquid.StrictUndefined)}[recipe["undefined"]]
    attrs = dict(recipe["flags"])
    attrs["suppress_blank_control_flow_blocks"] = recipe["suppress_blank"]
    for k, v in recipe["limits"].items():
        attrs[k] = v
    # environments with the same flags / limits share ONE class, as an application's would
    key = tuple(sorted(attrs.items()))
    cls = _ENV_CLASSES.get(key)
    if cls is None:
        cls = _ENV_CLASSES[key] = type("SimEnvironment", (Environment,), attrs)
    if subclass is not None:
        cls = subclass(cls)
    d = delims or DEFAULT_DELIMS
    kw = {}
    if recipe["template_comments"]:
        kw = {"template_comments": True, "comment_start_string": d["cs"], "comment_end_string": d["ce"]}
    elif recipe.get("comment_delims_always"):
        kw = {"comment_start_string": d["cs"], "comment_end_string": d["ce"]}
    env = cls(
        extra=recipe["extra"], tag_start_string=d["ts"], tag_end_string=d["te"],
        statement_start_string=d["os"], statement_end_string=d["oe"],
        tolerance={"strict": Mode.STRICT, "warn": Mode.WARN, "lax": Mode.LAX}[recipe["mode"]],
        loader=loader, undefined=und, strict_filters=recipe["strict_filters"], autoescape=recipe["autoescape"],
        globals=dict(recipe["globals"]) or None, **kw)
    if recipe["extra"] and recipe.get("babel_default"):
        from liquid.extra import Currency, Number
        env.add_filter("currency", Currency(default_locale=recipe["babel_default"]))
        env.add_filter("money", Currency(default_locale=recipe["babel_default"]))
        env.add_filter("decimal", Number(default_locale=recipe["babel_default"],
                                         default_input_locale=recipe["babel_default"]))
    return env

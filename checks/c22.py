"""C22 - Template loaders never read outside their search paths.

Storage is simulator-owned: a seeded sandbox tree on tmpfs with search roots,
a sibling ``outside/`` with decoys, sub-directories, odd file names, symlinks
(to inside, to outside files and directories, dangling, looping) and a
synthetic importable package.  Every file holds a unique token, so every
returned byte is attributable to one file.

Requests (names assembled from separators, '.', '..', absolute prefixes, NUL
and control characters, unicode, over-long segments, suffix/ext variations) go
through FileSystemLoader, CachingFileSystemLoader and PackageLoader, sync and
as concurrent SimLoop tasks (two seeded executor jobs each), directly and from
include/render tags, as request histories against the caching variant.

Oracle, fault-free: ModelResolver (string-level, os.path on the sandbox)
gives the permitted outcomes for the name; anything else - an outside token,
another file's token, any exception other than TemplateNotFoundError - is a
violation.  Fault configuration (errno faults at the k-th storage call, edits
between two storage calls of one request): a request may fail with the
injected error or not-found, never return wrong or outside data, and the
caching loader must serve the next fault-free request correctly.
"""
from __future__ import annotations

import asyncio
import importlib
import os
import sys
import warnings

sys.path.insert(0, os.path.dirname(os.path.dirname(os.path.abspath(__file__))))

from simkit import driver  # noqa: E402
from simkit.driver import bump, new_result, shrink_list  # noqa: E402
from simkit.fs import FaultPlan, FaultyPath, SimFS  # noqa: E402
from simkit.loop import SimDeadlock, SimLoop, SimStepCap  # noqa: E402
from simkit.rng import Rng, digest  # noqa: E402

import liquid.builtin.loaders.file_system_loader as fsl_mod  # noqa: E402
from liquid import (CachingFileSystemLoader, Environment, FileSystemLoader,  # noqa: E402
                    PackageLoader)
from liquid.exceptions import TemplateNotFoundError  # noqa: E402

NF = "NOTFOUND"
LONG = "L" * 300

BASE_FILES = [
    # (relative path in sandbox, kind)
    ("root/a.liquid", "IN"), ("root/b.txt", "IN"), ("root/noext", "IN"), ("root/sub/c.liquid", "IN"),
    ("root/sub/deep/d.liquid", "IN"), ("root/sp ace.liquid", "IN"), ("root/uni-ü世.liquid", "IN"),
    ("root/ctl\nx.liquid", "IN"), ("root/~/t.liquid", "IN"), ("root/.hidden", "IN"),
    ("root/dots.tar.gz", "IN"), ("root/back\\slash.liquid", "IN"), ("root/sub/noext", "IN"),
    ("root/noext.liquid", "IN"), ("root/.../x.liquid", "IN"),
    ("root2/a.liquid", "IN"), ("root2/e.liquid", "IN"), ("root2/sub/f.liquid", "IN"),
    ("outside/secret.txt", "OUT"), ("outside/a.liquid", "OUT"), ("outside/sub/c.liquid", "OUT"),
    ("outside/secret.liquid", "OUT"), ("secret.liquid", "OUT"), ("a.liquid", "OUT"),
    ("outside/t.liquid", "OUT"),     # $HOME is outside/ during a run: what '~/t.liquid' must NOT reach
    # decoys where a search path spelled '<sandbox>/late:site/tpl' ends up when it is split at the ':'
    ("late/a.liquid", "OUT"), ("late/noext", "OUT"), ("late/sub/c.liquid", "OUT"),
    ("site/tpl/a.liquid", "OUT"), ("site/tpl/b.txt", "OUT"), ("site/tpl/sub/c.liquid", "OUT"),
    ("pkgs/@PKG@/templates/p.liquid", "PIN"), ("pkgs/@PKG@/templates/sub/q.liquid", "PIN"),
    ("pkgs/@PKG@/templates/noext", "PIN"), ("pkgs/@PKG@/templates/r.txt", "PIN"),
    ("pkgs/@PKG@/more/m.liquid", "PIN2"),
    ("pkgs/@PKG@/other/x.liquid", "OUT"), ("pkgs/@PKG@/secret.liquid", "OUT"),
]
BASE_LINKS = [
    # (path, target, is_dir)
    ("root/l_in.liquid", "a.liquid", False),
    ("root/l_out.liquid", "../outside/secret.txt", False),
    ("root/l_abs_out.liquid", "@ABS@/outside/secret.txt", False),
    ("root/ld_out", "../outside", True),
    ("root/ld_in", "sub", True),
    ("root/l_dangling.liquid", "nowhere.liquid", False),
    ("root/l_loop.liquid", "l_loop.liquid", False),
    ("root/sub/l_up.liquid", "../../outside/a.liquid", False),
    ("root2/l_out2.liquid", "../outside/secret.txt", False),
    ("root/l_sib.liquid", "../root2/e.liquid", False),        # 'root2' starts with 'root': string-prefix containment tests
    ("root/ld_sib", "../root2", True),
    ("root/sub/ld_nested", "../ld_out", True),                # a link reached through another link
    ("pkgs/@PKG@/templates/l_out.liquid", "../other/x.liquid", False),
]


def has_suffix(seg):
    i = seg.rfind(".")
    return 0 < i < len(seg) - 1


class Tree:
    """The sandbox as built for one run, plus the model resolver over it."""

    def __init__(self, fs, sc):
        self.fs = fs
        self.abs = fs.root
        self.pkg = sc["pkg"]
        self.tok_by_real = {}
        self.real_by_tok = {}
        self.versions = {}     # realpath -> list of tokens that were ever current
        n = 0
        # every file its own mtime (replacing one by another is visible to stat()), in a seeded
        # order: what replaces a file may be older or newer than it
        ticks = list(range(1, len(BASE_FILES) + 1))
        Rng(sc.get("sched_seed", 0), ("mtimes",)).shuffle(ticks)
        for rel, kind in BASE_FILES:
            if rel in sc["absent"]:
                continue
            rel = rel.replace("@PKG@", self.pkg)
            n += 1
            tok = "%s:%d" % (kind, n)
            fs.write(rel, tok, ticks[n - 1])
            rp = os.path.realpath(fs.path(rel))
            self.tok_by_real[rp] = tok
            self.real_by_tok[tok] = rp
            self.versions[rp] = [tok]
        fs.write("pkgs/%s/__init__.py" % self.pkg, "", 1)
        for r in ("root", "root2"):
            fs.symlink("lnk_" + r, r, True)
            # outside/up_<r> -> ../<r>/zanchor : the path 'outside/up_<r>/..' IS the search directory
            # (the parent of the link's target), while its textual normalisation is 'outside'
            # (zanchor is never touched by the tree mutations)
            fs.mkdir(r + "/zanchor")
            fs.symlink("outside/up_" + r, "../%s/zanchor" % r, True)
        for rel, target, is_dir in BASE_LINKS:
            if rel in sc["absent"]:
                continue
            rel = rel.replace("@PKG@", self.pkg)
            fs.symlink(rel, target.replace("@ABS@", self.abs), is_dir)

    def roots(self, names):
        return [self.fs.path(n) for n in names]

    # -- editor: the tree changes BETWEEN requests of a sequential history -----------
    def mutate(self, m):
        """Apply one mutation; return a short description for the history."""
        fs = self.fs
        p = fs.path(m["path"])
        self.nmut = getattr(self, "nmut", 0) + 1
        # a deploy that normalises timestamps: the directories above the changed path keep the mtimes
        # they had before (whoever looks only at a directory's mtime sees nothing)
        keep_dirs = []
        if m.get("keep_dir_mtimes"):
            d = os.path.dirname(p)
            while len(d) >= len(fs.root):
                try:
                    stt = os.stat(d)
                    keep_dirs.append((d, stt.st_atime_ns, stt.st_mtime_ns))
                except OSError:
                    pass
                d = os.path.dirname(d)
        try:
            return self._mutate(m, fs, p)
        finally:
            for d, a, mt in keep_dirs:
                try:
                    os.utime(d, ns=(a, mt))
                except OSError:
                    pass

    def _mutate(self, m, fs, p):
        tick = (-100 - self.nmut) if m.get("older") else (500 + self.nmut)

        def remove():
            if os.path.islink(p) or os.path.isfile(p):
                os.unlink(p)
            elif os.path.isdir(p):
                import shutil
                shutil.rmtree(p)

        kind = m["kind"]
        if kind in ("file_to_link", "dir_to_link"):
            remove()
            fs.symlink(m["path"], m["target"], kind == "dir_to_link")
        elif kind in ("write", "to_plain_file"):   # create, or replace whatever is there (a file, a link, a whole
            # directory: ENOTDIR for everything below it) by a regular file
            remove()
            tok = "IN:m%d" % self.nmut
            fs.write(m["path"], tok, tick)
            rp = os.path.realpath(p)
            self.tok_by_real[rp] = tok
            self.real_by_tok[tok] = rp
            self.versions[rp] = [tok]
        elif kind == "delete":
            remove()
        elif kind == "to_loop":            # replaced by a link to itself: ELOOP
            remove()
            os.symlink(os.path.basename(p), p)
        return "%s %s" % (kind, m["path"])

    # -- the model ----------------------------------------------------------------
    def resolve(self, name, bases, ext, always_ext, reject_symlinks):
        """Set of permitted outcomes for `name`: tokens and/or NF."""
        if not isinstance(name, str) or "\0" in name:
            return {NF}
        try:
            name.encode("utf-8")
        except UnicodeEncodeError:
            return {NF}
        if name.startswith("/"):
            return {NF}
        segs = name.split("/")
        trailing = len(segs) > 1 and segs[-1] in ("", ".")
        norm = [s for s in segs if s not in ("", ".")]
        if not norm or ".." in norm:
            return {NF}
        if ext and not has_suffix(norm[-1]):
            norm[-1] = norm[-1] + ext
        rel = "/".join(norm)
        for base in bases:
            cand = base + "/" + rel
            try:
                isf = os.path.isfile(cand)
            except (OSError, ValueError):
                isf = False
            if not isf:
                continue
            rp = os.path.realpath(cand)
            if reject_symlinks:
                rb = os.path.realpath(base)
                if not (rp == rb or rp.startswith(rb + os.sep)):
                    continue
            out = set(self.versions.get(rp, ["?unknown:" + rp]))
            if trailing:
                out.add(NF)   # "a.liquid/": pathlib strips the slash, the OS says ENOTDIR - either is fine
            return out
        return {NF}

    def inside(self, tok, bases):
        """Is the file this token belongs to physically inside one of the configured bases?"""
        rp = self.real_by_tok.get(tok.split("v")[0])
        if rp is None:
            return False
        for b in bases:
            rb = os.path.realpath(b)
            if rp.startswith(rb + os.sep):
                return True
        return False

    def lexical_link(self, name, bases):
        """True if some prefix of base/name is a symlink (so a link is being followed)."""
        norm = [s for s in name.split("/") if s not in ("", ".")]
        for base in bases:
            p = base
            for s in norm:
                p = p + "/" + s
                try:
                    if os.path.islink(p):
                        return True
                except (OSError, ValueError):
                    return False
        return False


class TokEnv(Environment):
    """Environment.analyze_tags[_async] load the source through the loader and hand it to
    analyze_tags_from_string; returning the text there makes the loaded bytes observable."""

    def analyze_tags_from_string(self, source, *args, **kwargs):
        return source


def feature(name):
    if not isinstance(name, str):
        return "nonstr"
    if name.startswith("/"):
        return "abs"
    if ".." in name.split("/"):
        return "dotdot"
    if "\0" in name:
        return "nul"
    if len(name) > 4000 or any(len(seg.encode("utf-8", "replace")) > 240 for seg in name.split("/")):
        return "long"
    if "l_" in name or "ld_" in name:
        return "link"
    try:
        name.encode("utf-8")
    except UnicodeEncodeError:
        return "surrogate"
    if any(ord(c) < 32 for c in name):
        return "ctrl"
    if name.endswith("/") or name.endswith("/.") or name in ("", "."):
        return "trailing"
    return "plain"


class C22:
    PROP = "C22"
    LEVEL = "exploration"
    NO_PIN = True   # no baton threads here: let the OS scheduler place the workers
    TIERS = {
        "quick": {"runs": 120000, "budget_s": 45, "chunk": 200, "determinism_runs": 48},
        "thorough": {"runs": 2000000, "budget_s": 600, "chunk": 400, "determinism_runs": 256,
                     "minimise_s": 90},
    }
    RULE = ("Each run builds a seeded sandbox tree and issues <=40 requests through one loader variant "
            "(FileSystemLoader / CachingFileSystemLoader / PackageLoader; 1-2 search paths; ext; reject_symlinks), "
            "sync and as concurrent SimLoop tasks, directly or via include/render. Non-trivial request = its name "
            "contains an escape ingredient ('..', absolute prefix, symlink, NUL/control/surrogate character, "
            "over-long segment, trailing separator) or it is served from the cache; a run is non-trivial if it has "
            ">=1 such request; distinct = hash(scenario, interleaving signature).")
    STATE_MEASURE = "distinct (loader variant, config, name feature class, outcome class) tuples"
    COMPONENTS = {
        "real": ["liquid FileSystemLoader.resolve_path/_read/get_source[_async], CachingFileSystemLoader, "
                 "PackageLoader._resolve_path/get_source[_async], Environment.get_template[_async], include/render tags "
                 "from /repo's working tree", "pathlib/os/importlib.resources on a real tmpfs sandbox",
                 "CPython asyncio Task/Future"],
        "stub": ["event loop + executor (SimLoop: jobs run inline at seeded virtual times)",
                 "pathlib.Path in file_system_loader replaced by FaultyPath (errno faults and edits at the k-th storage call)",
                 "file contents/mtimes written by the simulator"],
    }
    ASSUMPTIONS = [
        "POSIX path semantics; directory-backed packages only (no zipped Traversable)",
        "with reject_symlinks=False links lexically inside a root may be followed (documented default)",
        "a trailing separator after a file name may resolve either way (pathlib strips it, the OS reports ENOTDIR)",
        "check-then-open races with a concurrently mutated tree are outside the stated quantifier; the tree is "
        "static in the fault-free configuration and only file contents (never links) change in the fault configuration",
    ]
    REQUIRED_REACH = ["fault.cancel_landed", "reach.second_event_loop", "reach.feature.abs", "reach.feature.dotdot", "reach.feature.link", "reach.feature.long",
                      "reach.feature.nul", "reach.feature.ctrl", "reach.outcome.ok", "reach.outcome.notfound",
                      "reach.cache_hit", "reach.link_followed", "reach.link_rejected", "reach.async_overlap",
                      "fault.errno", "fault.edit_between_calls", "reach.pkg.ok"]

    # -- generation ------------------------------------------------------------
    def gen(self, run_seed, tier):
        rng = Rng(run_seed, ("gen",))
        config = "fault" if rng.chance(0.25) else "nofault"
        loader = rng.weighted([("fs", 4), ("cfs", 4), ("pkg", 3)])
        if config == "fault" and loader == "pkg":
            loader = "cfs"
        pkg = "lvpkg_%x" % (run_seed & 0xFFFFFFFF)
        absent = [rel for rel, _ in BASE_FILES if rng.chance(0.12)] + \
                 [rel for rel, _, _ in BASE_LINKS if rng.chance(0.15)]
        two = rng.chance(0.5)
        sc = {
            "config": config, "loader": loader, "pkg": pkg, "absent": absent,
            "roots": ["root", "root2"] if two else ["root"],
            "root_shape": rng.weighted([("abs", 6), ("relative", 2), ("via_link", 2), ("cwd", 2), ("link_dotdot", 1.5), ("late_colon", 1)]),
            "cwd_form": rng.choice([".", "", "./"]),
            "compose": rng.weighted([(None, 7), ("choice", 2), ("factory", 1)]),
            "segments": 2 if rng.chance(0.15) else 1,     # the requests run in two successive event loops
            "pkg_paths": rng.choice([["templates"], ["templates", "more"], "templates"]),
            "ext": rng.weighted([(None, 3), (".liquid", 4), (".txt", 1)]),
            "reject_symlinks": rng.chance(0.5),
            "capacity": rng.randint(1, 4), "auto_reload": rng.chance(0.7),
            "sched_seed": rng.randrange(1 << 30),
            "lat": {"max": 0.01, "zero_p": rng.choice([0.1, 0.5]), "stall_p": 0.0},
        }
        if loader == "pkg":
            sc["ext"] = rng.choice([".liquid", ".liquid", ".txt"])
        nreq = rng.randint(1, 40 if tier == "thorough" else 24)
        nclients = rng.weighted([(1, 3), (2, 3), (3, 3), (4, 3), (6, 1.5), (8, 1.5)])   # more than four overlapping loads too
        clients = [{"id": c, "ops": []} for c in range(nclients)]
        pool = []
        for i in range(nreq):
            if pool and rng.chance(0.3):
                name = rng.choice(pool)      # repeats: cache hits
            else:
                name = self._gen_name(rng, sc)
                pool.append(name)
            op = {"op": "req", "uid": i, "name": name, "mode": rng.choice(["sync", "async"]),
                  "via": rng.weighted([("direct", 6), ("include", 2), ("render", 1), ("get_source", 2),
                                       ("analyze_tags", 1)])}
            if config == "fault":
                r = rng.random()
                if r < 0.35:
                    op["fault"] = {"at": rng.randint(1, 6), "kind": rng.choice(["stat", "open", "resolve", "any"]),
                                   "errno": rng.choice(["ENOENT", "EACCES", "EIO", "ELOOP", "ENAMETOOLONG", "EMFILE",
                                                        "ENOTDIR"])}
                elif r < 0.55:
                    op["edit_at"] = rng.randint(1, 5)
            rng.choice(clients)["ops"].append(op)
        if config == "nofault" and loader in ("fs", "cfs") and rng.chance(0.3):
            # a sequential history in which the tree changes between requests: what a name may
            # resolve to is judged against the tree as it is at each request
            ops = sorted((op for c in clients for op in c["ops"]), key=lambda o: o["uid"])
            uid = nreq
            for _ in range(rng.randint(1, 3)):
                mut, names = self._gen_mutation(rng, sc)
                at = rng.randint(0, len(ops))
                seq = []
                for nm in [rng.choice(names) for _ in range(rng.randint(0, 2))]:
                    seq.append({"op": "req", "uid": uid, "name": nm, "mode": rng.choice(["sync", "async"]),
                                "via": rng.weighted([("direct", 6), ("include", 2), ("get_source", 2)])})
                    uid += 1
                if mut["kind"] == "write" and rng.chance(0.4):
                    mut["older"] = True      # the replacement carries an OLDER mtime than anything in the tree
                if rng.chance(0.4):
                    mut["keep_dir_mtimes"] = True
                seq.append({"op": "mutate", "uid": uid, **mut})
                uid += 1
                for nm in [rng.choice(names) for _ in range(rng.randint(1, 3))]:
                    seq.append({"op": "req", "uid": uid, "name": nm, "mode": rng.choice(["sync", "async"]),
                                "via": rng.weighted([("direct", 6), ("include", 2), ("get_source", 2)])})
                    uid += 1
                ops[at:at] = seq
            clients = [{"id": 0, "ops": ops}]
        elif config == "nofault" and loader in ("fs", "cfs") and rng.chance(0.2):
            # phases: concurrent clients, then - with nothing in flight - one mutation of the tree,
            # then concurrent clients again, several of them asking for the names the mutation touched
            phases = []
            uid = nreq
            for _ in range(rng.randint(1, 2)):
                mut, names = self._gen_mutation(rng, sc)
                if mut["kind"] == "write" and rng.chance(0.4):
                    mut["older"] = True
                if rng.chance(0.4):
                    mut["keep_dir_mtimes"] = True
                pcl = []
                for c in range(rng.randint(1, 6)):
                    ops = []
                    for _ in range(rng.randint(1, 3)):
                        ops.append({"op": "req", "uid": uid, "name": rng.choice(names) if rng.chance(0.8) else rng.choice(pool),
                                    "mode": rng.choice(["sync", "async", "async"]),
                                    "via": rng.weighted([("direct", 6), ("include", 2), ("get_source", 2)])})
                        uid += 1
                    pcl.append({"id": c, "ops": ops})
                # warm the cache with the touched names before the first mutation
                for nm in names:
                    rng.choice(clients)["ops"].append({"op": "req", "uid": uid, "name": nm, "mode": rng.choice(["sync", "async"]),
                                                       "via": "direct"})
                    uid += 1
                phases.append({"mutate": {"op": "mutate", "uid": uid, **mut}, "clients": pcl})
                uid += 1
            sc["phases"] = phases
        if config == "nofault" and loader in ("fs", "cfs"):
            for c in clients:
                for op in c["ops"]:
                    if op["op"] == "req" and op["mode"] == "async" and rng.chance(0.08):
                        op["cancel_after"] = round(rng.random() * 0.01, 5)
        sc["clients"] = clients
        return sc

    def _gen_mutation(self, rng, sc):
        ext = sc["ext"] or ""
        k = rng.randrange(12)
        if k == 9:
            return ({"kind": "to_plain_file", "path": "root/sub"}, ["sub/c.liquid", "sub/c", "sub/noext"])
        if k == 10:
            return ({"kind": "to_loop", "path": "root/a.liquid"}, ["a.liquid", "a"])
        if k == 11:
            return ({"kind": "to_loop", "path": "root/sub"}, ["sub/c.liquid", "sub/c"])
        if k == 0:
            return ({"kind": "file_to_link", "path": "root/a.liquid", "target": "../outside/secret.txt"},
                    ["a.liquid", "a"])
        if k == 1:
            return ({"kind": "dir_to_link", "path": "root/sub", "target": "../outside/sub"},
                    ["sub/c.liquid", "sub/c"])
        if k == 2:
            return ({"kind": "write", "path": "root/l_out.liquid"}, ["l_out.liquid", "l_out"])
        if k == 3:
            return ({"kind": "write", "path": "root/e.liquid"}, ["e.liquid", "e"])       # shadows root2/e.liquid
        if k == 4:
            return ({"kind": "delete", "path": "root/a.liquid"}, ["a.liquid", "a"])      # root2/a.liquid answers
        if k == 5:
            return ({"kind": "file_to_link", "path": "root/b.txt", "target": "a.liquid"}, ["b.txt"])
        if k == 6:
            return ({"kind": "file_to_link", "path": "root/sub/c.liquid", "target": "../../outside/sub/c.liquid"},
                    ["sub/c.liquid", "sub/c"])
        if k == 7:
            return ({"kind": "write", "path": "root/sub/f.liquid"}, ["sub/f.liquid", "sub/f"])  # shadows root2/sub/f
        return ({"kind": "write", "path": "root/zz.liquid"}, ["zz.liquid", "zz"])       # a name that was not found before

    def _gen_name(self, rng, sc):
        pkg = sc["loader"] == "pkg"
        firsts = (["p", "p.liquid", "sub/q", "sub/q.liquid", "noext", "r.txt", "m", "l_out", "l_out.liquid",
                   "../other/x.liquid", "../secret", "other/x.liquid", "zz"] if pkg else
                  ["a", "a.liquid", "b.txt", "noext", "sub/c.liquid", "sub/c", "sub/deep/d.liquid", "sp ace.liquid",
                   "sp ace", "uni-ü世.liquid", "ctl\nx.liquid", "~/t.liquid", "~/t", "~/secret.txt", "~/a.liquid",
                   "~nosuchuser/a.liquid", "~root/.bashrc", "~~/t.liquid", ".hidden", "dots.tar.gz",
                   "dots.tar", "back\\slash.liquid", "sub/noext", "e", "e.liquid", "sub/f.liquid", ".../x.liquid",
                   "l_in.liquid", "l_in", "l_out.liquid", "l_out", "l_abs_out.liquid", "ld_out/secret.txt",
                   "ld_out/a.liquid", "ld_out/a", "ld_in/c.liquid", "l_dangling.liquid", "l_loop.liquid",
                   "sub/l_up.liquid", "l_out2.liquid", "ld_out/sub/c.liquid", "zz", "zz.liquid", "l_sib.liquid", "l_sib",
                   "ld_sib/e.liquid", "ld_sib/e", "ld_sib/sub/f.liquid", "sub/ld_nested/secret.txt",
                   "sub/ld_nested/a.liquid"])
        mode = rng.weighted([("plain", 30), ("dotdot", 12), ("abs", 10), ("sep", 8), ("ctrl", 6), ("long", 4),
                             ("trail", 4), ("random", 8), ("surrogate", 2), ("dots", 4)])
        base = rng.choice(firsts)
        ab = "@ABS@"
        if mode == "plain":
            return base
        if mode == "dotdot":
            return rng.choice([
                "../outside/secret.txt", "../outside/secret", "../outside/a.liquid", "../a.liquid", "../a",
                "sub/../../outside/a.liquid", "sub/../a.liquid", "./../secret.liquid", "..", "../", "..//secret.liquid",
                "sub/deep/../../../secret.liquid", "../secret", "..\\outside\\secret.txt", "sub/..", "a.liquid/..",
                "../" + sc["pkg"] + "/secret.liquid", "../other/x.liquid", "../other/x", "..%2fsecret.liquid",
                "..\\other\\x.liquid", "..\\other\\x", "..\\secret.liquid", "..\\secret", "sub\\..\\..\\secret",
                "..\\outside\\secret", "..\\..\\..\\outside\\secret.txt", "..\\a.liquid", "..\\a",
                base + "/../../outside/secret.txt", "../root/a.liquid", "../root2/e.liquid", ". ./a", "../templates/p",
                # look-alikes of '..' and '/' that only fold into the real thing under unicode normalisation
                "\u2025/outside/secret.txt", "\u2024\u2024/secret.liquid", "\uff0e\uff0e/secret.liquid",
                "sub/\u2025/\u2025/outside/a.liquid", "\uff0e\uff0e\uff0fsecret.liquid", "\uff0fetc\uff0fhostname",
                "\u2025/a.liquid", "\uff0e\uff0e/outside/secret", "\ufe30/outside/secret.txt"])
        if mode == "abs":
            return rng.choice([
                ab + "/outside/secret.txt", ab + "/outside/secret", ab + "/outside/a.liquid", ab + "/secret.liquid",
                ab + "/root/a.liquid", ab + "/root/a", "/" + base, "//" + base, "///" + base, "/etc/hostname",
                "/etc/passwd", ab + "/pkgs/" + sc["pkg"] + "/other/x.liquid", ab + "/pkgs/" + sc["pkg"] + "/secret",
                "/", "//", ab + "/outside/../outside/secret.txt", ab + "//outside/secret.txt",
                ab + "/pkgs/" + sc["pkg"] + "/templates/p.liquid", ab + "/a", "~" + ab + "/secret.liquid",
                ab.replace("/", "\\") + "\\outside\\secret.txt", ab.replace("/", "\\") + "\\secret.liquid",
                "\\etc\\hostname"])
        if mode == "sep":
            return rng.choice(["./" + base, "sub//c.liquid", ".//" + base, "sub/./c.liquid", "sub\\c.liquid",
                               "./sub/./deep/./d.liquid", base.replace("/", "//"), "\\" + base, "sub/./q.liquid"])
        if mode == "ctrl":
            return rng.choice(["a\0.liquid", "\0", "a.liquid\0", "sub/\0/c.liquid", "ctl\nx", "ctl\nx.liquid",
                               "a\n.liquid", "\t", "a\r\n", "\x7f", "a\x1b[0m.liquid", "‮a.liquid",
                               "../\0", ab + "/outside/secret.txt\0", "a.liquid\n", " a.liquid", "a.liquid "])
        if mode == "long":
            return rng.choice([LONG, LONG + ".liquid", "sub/" + LONG, "a" * 255, "a" * 256, "b" * 250 + ".liquid",
                               "/".join(["d" * 200] * 25), LONG + "/../a.liquid", "x" * 5000,
                               ab + "/outside/" + LONG])
        if mode == "trail":
            return rng.choice([base + "/", base + "/.", "sub/", "sub", "sub/deep", "", ".", "./", "ld_in", "ld_out",
                               "~", "~/", "sub/.", ".../", base + "//",
                               # an existing FILE used as a folder
                               "a.liquid/footer", "a.liquid/footer.liquid", "noext/x", "b.txt/a.liquid", "sub/c.liquid/d"])
        if mode == "surrogate":
            return rng.choice(["a\udc80.liquid", "\ud800", "sub/\udfff.liquid", "uni-ü世", "\U0001f600.liquid"])
        if mode == "dots":
            return rng.choice(["a.", "a..", ".a", "..a", "a..liquid", "...", ".../x", ".../x.liquid", "....", ".hidden.",
                               "dots.", "dots.tar.", "noext.", ".liquid", "sub/.liquid", "sub/c."])
        alphabet = ["a", "b", ".", "..", "/", "//", "\\", "~", " ", "sub", "c", ".liquid", "l_out", "ld_out",
                    "outside", "secret", ".txt", "\0", "\n", "ü", "root", "templates", "other", "x", "p"]
        return "".join(rng.choice(alphabet) for _ in range(rng.randint(1, 7)))

    # -- execution ---------------------------------------------------------------
    def run(self, sc):
        res = new_result()
        fs = SimFS()
        plan = FaultPlan()
        saved = fsl_mod.Path
        fsl_mod.Path = FaultyPath
        FaultyPath.plan = plan
        pkgdir = fs.path("pkgs")
        cwd = os.getcwd()
        home = os.environ.get("HOME")
        try:
            os.chdir(fs.root)
            os.environ["HOME"] = fs.path("outside")
            with warnings.catch_warnings():
                warnings.simplefilter("ignore")
                tree = Tree(fs, sc)
                sys.path.insert(0, pkgdir)
                importlib.invalidate_caches()
                try:
                    self._run_world(sc, tree, plan, res)
                finally:
                    sys.path.remove(pkgdir)
                    for m in [m for m in sys.modules if m == sc["pkg"] or m.startswith(sc["pkg"] + ".")]:
                        del sys.modules[m]
                    importlib.invalidate_caches()
        finally:
            os.chdir(cwd)
            if home is None:
                os.environ.pop("HOME", None)
            else:
                os.environ["HOME"] = home
            fsl_mod.Path = saved
            FaultyPath.plan = None
            fs.close()
        seen, out = set(), []
        for v in res["violations"]:
            if v["sig"] not in seen:
                seen.add(v["sig"])
                out.append(v)
        res["violations"] = out
        return res

    def _make_loader(self, sc, tree):
        kind = sc["loader"]
        if kind == "pkg":
            bases = [tree.fs.path("pkgs/%s/%s" % (sc["pkg"], p))
                     for p in ([sc["pkg_paths"]] if isinstance(sc["pkg_paths"], str) else sc["pkg_paths"])]
            ld = PackageLoader(sc["pkg"], package_path=sc["pkg_paths"], ext=sc["ext"])
            return ld, bases, sc["ext"], False
        bases = tree.roots(sc["roots"])
        shape = sc.get("root_shape", "abs")
        given = list(bases)
        if shape == "relative":
            given = list(sc["roots"])            # relative to the current directory (the sandbox, see run())
        elif shape == "via_link":
            given = [tree.fs.path("lnk_" + r) for r in sc["roots"]]   # a symlink to the search directory
        elif shape == "late_colon":
            # a search directory whose name contains the PATH separator and which does not exist yet when
            # the loader is constructed (it is deployed afterwards, see below); one root only
            bases = bases[:1]
            given = [tree.fs.path("late:site/tpl")]
        elif shape == "link_dotdot":
            given = [tree.fs.path("outside/up_%s/.." % r) for r in sc["roots"]]
        elif shape == "cwd":
            # the search directory IS the current directory, given as '.', '' or './' (a path
            # without components: the first component of base/name is then the name's own)
            os.chdir(bases[0])
            given = [sc.get("cwd_form", ".")] + ["../" + r for r in sc["roots"][1:]]
        sp = given if len(given) > 1 else given[0]
        compose = sc.get("compose")
        if compose == "choice":
            # one file-system loader per search directory behind a (caching) choice loader: the
            # same search order, the same containment rule per directory
            import liquid
            subs = [FileSystemLoader(g, ext=sc["ext"], reject_symlinks=sc["reject_symlinks"]) for g in given]
            ld = liquid.ChoiceLoader(subs) if kind == "fs" else \
                liquid.CachingChoiceLoader(subs, auto_reload=sc["auto_reload"], capacity=sc["capacity"])
        elif compose == "factory" and not sc["reject_symlinks"]:
            import liquid
            ld = liquid.make_file_system_loader(sp, ext=sc["ext"], auto_reload=sc["auto_reload"],
                                                cache_size=sc["capacity"] if kind == "cfs" else 0)
        elif kind == "fs":
            ld = FileSystemLoader(sp, ext=sc["ext"], reject_symlinks=sc["reject_symlinks"])
        else:
            ld = CachingFileSystemLoader(sp, ext=sc["ext"], reject_symlinks=sc["reject_symlinks"],
                                         auto_reload=sc["auto_reload"], capacity=sc["capacity"])
        if shape == "late_colon":
            os.makedirs(tree.fs.path("late:site"), exist_ok=True)
            os.symlink(bases[0], tree.fs.path("late:site/tpl"), target_is_directory=True)
        return ld, bases, sc["ext"], sc["reject_symlinks"]

    def _run_world(self, sc, tree, plan, res):
        st = res["stats"]
        viol = res["violations"]
        ld, bases, ext, reject = self._make_loader(sc, tree)
        env = TokEnv(loader=ld)
        loop = SimLoop(Rng(sc["sched_seed"], ("sched",)), step_cap=60000, lat_profile=sc["lat"])
        history = []
        in_flight = [0]
        nontrivial = [0]
        dirty = set()      # names whose request was hit by a fault (cache may legitimately hold nothing)
        mutated = [0]
        ever_allowed = {}  # name -> outcomes permitted for it at some earlier request of this run

        def add(oracle, sig, detail):
            viol.append({"oracle": oracle, "sig": "%s:%s" % (sc["loader"], sig), "detail": detail})

        def real_name(op):
            return op["name"].replace("@ABS@", tree.abs)

        def wrapper(op, name):
            if op["via"] == "render" and not any(c in name for c in "'\"%}{\n\r\0") and name.isprintable():
                return env.from_string("{% render '" + name + "' %}")
            return env.from_string("{% include n %}")

        def perform_sync(op, name):
            if op["via"] == "direct":
                return env.get_template(name).render()
            if op["via"] == "get_source":
                return env.loader.get_source(env, name).text
            if op["via"] == "analyze_tags":
                return env.analyze_tags(name)
            return wrapper(op, name).render(n=name)

        async def perform_async(op, name):
            if op["via"] == "direct":
                return await (await env.get_template_async(name)).render_async()
            if op["via"] == "get_source":
                return (await env.loader.get_source_async(env, name)).text
            if op["via"] == "analyze_tags":
                return await env.analyze_tags_async(name)
            return await wrapper(op, name).render_async(n=name)

        def classify(exc):
            if isinstance(exc, TemplateNotFoundError):
                return ("nf",)
            return ("err", type(exc).__name__, str(exc)[:160].replace(tree.abs, "@ABS@"))

        def edit_current(name):
            """Editor action: give the file `name` resolves to (if any) a new version."""
            allowed = tree.resolve(name, bases, ext, False, reject)
            for rp, toks in list(tree.versions.items()):
                if toks[-1] in allowed and rp.startswith(tree.abs + "/root"):
                    new = toks[0] + "v%d" % len(toks)
                    toks.append(new)
                    with open(rp, "w") as f:
                        f.write(new)
                    os.utime(rp, (1_700_000_100 + len(toks), 1_700_000_100 + len(toks)))
                    bump(st, "fault.edit_between_calls")
                    return

        async def do_request(op):
            name = real_name(op)
            feat = feature(name)
            bump(st, "reach.feature." + feat)
            if feat != "plain":
                nontrivial[0] += 1
            inv = loop.event("req.invoke")
            calls0 = plan.calls
            nfired0 = len(plan.fired)
            if "fault" in op:
                f = dict(op["fault"])
                f["at"] = plan.calls + f["at"]
                plan.faults.append(f)
            if "edit_at" in op:
                plan.actions.append((plan.calls + op["edit_at"], lambda: edit_current(name)))
            try:
                if op["mode"] == "sync":
                    out = ("ok", perform_sync(op, name))
                else:
                    if in_flight[0]:
                        bump(st, "reach.async_overlap")
                    in_flight[0] += 1
                    try:
                        if op.get("cancel_after") is not None:
                            sub = loop.create_task(perform_async(op, name), name="r%d" % op["uid"])
                            loop.streams[sub.get_name()] = loop.rng.fork("op", op["uid"], "sub")
                            fired = []
                            h = loop.call_later(op["cancel_after"], lambda: (fired.append(1), sub.cancel()))
                            try:
                                out = ("ok", await sub)
                            except asyncio.CancelledError:
                                if not (sub.cancelled() and fired):
                                    raise
                                # the request was cancelled by its caller: nothing to judge, but
                                # whatever it left behind is seen by the requests that follow
                                bump(st, "fault.cancel_landed")
                                history.append([op["uid"], inv, loop.event("req.cancelled"), "cancelled"])
                                plan.faults = []
                                plan.actions = []
                                return
                            finally:
                                h.cancel()
                        else:
                            out = ("ok", await perform_async(op, name))
                    finally:
                        in_flight[0] -= 1
            except (SimDeadlock, SimStepCap):
                raise
            except asyncio.CancelledError as e:
                t = asyncio.current_task()
                if t is not None and t.cancelling():
                    raise
                out = classify(e)      # nobody cancelled this request: an exception like any other
            except Exception as e:  # noqa: BLE001 - judged below
                out = classify(e)
            ret = loop.event("req.return")
            fired = plan.fired[nfired0:]
            injected = [f for f in fired if f[0] != "action"]
            edited = [f for f in fired if f[0] == "action"]
            # un-fired faults/actions of this op do not leak into the next op
            plan.faults = []
            plan.actions = []
            if injected:
                bump(st, "fault.errno")
                bump(st, "fault.errno." + injected[0][0])
            storage_calls = plan.calls - calls0
            if sc["loader"] == "cfs" and out[0] == "ok" and storage_calls <= 1 and op["via"] == "direct":
                bump(st, "reach.cache_hit")
                nontrivial[0] += 1
            history.append([op["uid"], inv, ret, op["mode"], op["via"], out[:2]])
            allowed = tree.resolve(name, bases, ext, False, reject)
            if injected or (name in dirty and sc["loader"] == "cfs"):
                # an injected error on one search path may legitimately make the loader fall
                # through to the next one: any root's file of that name is the right name; a
                # caching loader may go on serving that (successfully loaded, up-to-date) file
                for b in bases:
                    allowed = allowed | (tree.resolve(name, [b], ext, False, reject) - {NF})
            if injected:
                dirty.add(name)
            if sc["loader"] == "cfs":
                # a caching loader may go on serving what it loaded before the tree changed when
                # nothing tells it otherwise (auto_reload off); with auto_reload on every file here
                # has its own mtime, so a replaced file is always noticed
                seen = ever_allowed.setdefault(name, set())
                if mutated[0] and not sc["auto_reload"]:
                    allowed = allowed | (seen - {NF})
                elif mutated[0]:
                    # auto_reload on: an entry loaded from a later search path stays up to date when
                    # the same name is created in an earlier one afterwards (nothing it can stat changed):
                    # what a single configured base still answers, and was served before, is permitted
                    for b in bases:
                        allowed = allowed | ((tree.resolve(name, [b], ext, False, reject) - {NF}) & seen)
                seen |= tree.resolve(name, bases, ext, False, reject)
            res["states"].append(int(digest((sc["loader"], sc["config"], feat, out[0]))[:12], 16))
            self._judge(sc, tree, op, name, feat, out, allowed, bases, reject, injected, edited, dirty, add, st)

        async def client(c):
            me = "c%d" % c["id"]
            for op in c["ops"]:
                loop.streams[me] = loop.rng.fork("op", op["uid"])
                await loop.latency("think")
                if op["op"] == "mutate":
                    plan.enabled = False
                    try:
                        history.append([op["uid"], loop.event("mutate"), tree.mutate(op)])
                        bump(st, "reach.tree_mutated." + op["kind"])
                    except OSError as e:   # e.g. the parent is a dangling link in this tree: no-op
                        history.append([op["uid"], loop.event("mutate"), "failed: " + type(e).__name__])
                        bump(st, "tree_mutation_not_applicable")
                    finally:
                        plan.enabled = True
                    mutated[0] += 1
                    continue
                await do_request(op)
                if viol:
                    return

        nseg = sc.get("segments", 1) if not sc.get("phases") else 1

        def part(c, si):
            ops = c["ops"]
            if nseg == 1 or si is None:
                return ops
            h = (len(ops) + 1) // 2
            return ops[:h] if si == 0 else ops[h:]

        async def root(si=None):
            ts = [loop.create_task(client({**c, "ops": part(c, si)}), name="c%d" % c["id"]) for c in sc["clients"]
                  if part(c, si)]
            if ts:
                await asyncio.gather(*ts)
            if si is not None:
                return
            for k, ph in enumerate(sc.get("phases") or []):
                if viol:
                    return
                await client({"id": 90 + k, "ops": [ph["mutate"]]})
                ts = [loop.create_task(client(c), name="p%dc%d" % (k, c["id"])) for c in ph["clients"] if c["ops"]]
                if ts:
                    await asyncio.gather(*ts)

        tot = {"jobs": 0, "time": 0.0, "steps": 0, "isig": []}
        try:
            for si in (range(nseg) if nseg > 1 else [None]):
                if si:
                    prev = loop
                    loop = SimLoop(Rng(sc["sched_seed"], ("sched", si)), step_cap=60000, lat_profile=sc["lat"])
                    loop.seq, loop.log = prev.seq, prev.log
                    bump(st, "reach.second_event_loop")
                loop.run_sim(root(si))
                tot["jobs"] += loop.executor_jobs
                tot["time"] += loop.time()
                tot["steps"] += loop.steps
                tot["isig"].append(loop.interleaving_signature())
                if viol:
                    break
        except SimDeadlock:
            add("liveness", "deadlock", {"log_tail": loop.log[-10:]})
        except SimStepCap:
            raise RuntimeError("HARNESS-TIMEOUT: SimLoop step cap")
        bump(st, "runs." + sc["config"])
        bump(st, "runs.loader." + sc["loader"])
        bump(st, "exec.jobs", tot["jobs"])
        bump(st, "storage.calls", plan.calls)
        res["sim_time"] = tot["time"]
        res["steps"] = tot["steps"]
        res["isig"] = tot["isig"][0] if len(tot["isig"]) == 1 else digest(tot["isig"])
        res["digest"] = digest((loop.log, history))
        res["nontrivial"] = nontrivial[0] > 0

    def _judge(self, sc, tree, op, name, feat, out, allowed, bases, reject, injected, edited, dirty, add, st):
        pk = sc["loader"] == "pkg"
        if out[0] == "err":
            if injected and out[1] in ("OSError", "PermissionError", "FileNotFoundError", "NotADirectoryError",
                                       "RuntimeError"):
                # RuntimeError: pathlib turns an (injected) ELOOP from resolve() into 'Symlink loop'
                bump(st, "fault.request_failed_with_injected_error")
                dirty.add(name)
                return
            add("errors", "exception:%s:%s" % (out[1], feat),
                {"op": op, "raised": out[1:], "permitted": sorted(allowed)})
            return
        if out[0] == "nf":
            bump(st, "reach.outcome.notfound")
            if NF in allowed:
                if feat == "link" and allowed == {NF} and reject:
                    bump(st, "reach.link_rejected")
                return
            if injected:
                bump(st, "fault.request_failed_with_injected_error")
                return
            add("errors", "spurious-notfound:%s" % feat, {"op": op, "permitted": sorted(allowed)})
            return
        tok = out[1]
        bump(st, "reach.outcome.ok")
        if pk:
            bump(st, "reach.pkg.ok")
        if tok in allowed:
            if tree.lexical_link(name, bases):
                bump(st, "reach.link_followed")
            return
        # what did we get instead?
        if not tree.inside(tok, bases):
            via_link = tree.lexical_link(name, bases)
            add("containment", "outside-content:%s:%s" % ("symlink" if via_link else "lexical", feat),
                {"op": op, "returned": tok, "file": tree.real_by_tok.get(tok.split("v")[0], "?").replace(tree.abs, "@ABS@"),
                 "permitted": sorted(allowed), "reject_symlinks": reject})
            return
        if feat == "link" and reject and tok in tree.resolve(name, bases, sc["ext"], False, False):
            # the link leads out of this search directory but into another CONFIGURED one: the
            # loader rejects it per base; accepting it would not read outside the search directories
            bump(st, "relaxed.link_into_other_search_path")
            return
        if feat in ("dotdot", "abs"):
            if sc["loader"] == "cfs" and not injected:
                # ... unless it is the CACHE that answers: the same loader says not-found for this name
                # when nothing is cached, so a name that cannot be resolved got an answer out of history
                add("errors", "spurious-found:%s" % feat, {"op": op, "returned": tok,
                                                           "note": "answered for a name the loader itself rejects when uncached"})
                return
            # a name the documented contract rejects, answered with a file that IS inside the search
            # path (e.g. 'sub/../a.liquid'): stricter loaders say not-found, but nothing was read
            # outside the search directories, so the statement is not violated
            bump(st, "relaxed.escape_syntax_resolved_inside")
            return
        # a stale version of the right file is fine for a caching loader without (or with failed) reload
        base_tok = tok.split("v")[0]
        if any(a.split("v")[0] == base_tok for a in allowed if a != NF) and (edited or sc["loader"] == "cfs"):
            bump(st, "relaxed.other_version_of_same_file")
            return
        if NF in allowed and len(allowed) == 1:
            add("containment", "spurious-found:%s" % feat, {"op": op, "returned": tok})
            return
        add("containment", "wrong-file:%s" % feat, {"op": op, "returned": tok, "permitted": sorted(allowed)})

    # -- minimisation ------------------------------------------------------------
    def shrink(self, sc):
        cl = sc["clients"]
        for i in range(len(cl)):
            if len(cl) > 1:
                yield {**sc, "clients": cl[:i] + cl[i + 1:]}
        for i, c in enumerate(cl):
            for cand in shrink_list(c["ops"]):
                yield {**sc, "clients": cl[:i] + [{**c, "ops": cand}] + cl[i + 1:]}
        ph = sc.get("phases") or []
        for k in range(len(ph)):
            yield {**sc, "phases": ph[:k] + ph[k + 1:]}
            pc = ph[k]["clients"]
            for i in range(len(pc)):
                if len(pc) > 1:
                    yield {**sc, "phases": ph[:k] + [{**ph[k], "clients": pc[:i] + pc[i + 1:]}] + ph[k + 1:]}
                for cand in shrink_list(pc[i]["ops"]):
                    yield {**sc, "phases": ph[:k] + [{**ph[k], "clients": pc[:i] + [{**pc[i], "ops": cand}] + pc[i + 1:]}]
                           + ph[k + 1:]}
        if sc["absent"]:
            yield {**sc, "absent": []}
        if len(sc["roots"]) > 1:
            yield {**sc, "roots": sc["roots"][:1]}
        if sc.get("compose"):
            yield {**sc, "compose": None}
        if sc.get("segments", 1) > 1:
            yield {**sc, "segments": 1}
        if sc["lat"]["zero_p"] != 1.0:
            yield {**sc, "lat": {**sc["lat"], "zero_p": 1.0}}
        for i, c in enumerate(cl):
            for j, op in enumerate(c["ops"]):
                for s in self._simpler(op):
                    yield {**sc, "clients": cl[:i] + [{**c, "ops": c["ops"][:j] + [s] + c["ops"][j + 1:]}] + cl[i + 1:]}

    def _simpler(self, op):
        if op["op"] != "req":
            return
        if op["via"] != "direct":
            yield {**op, "via": "direct"}
        if op["mode"] == "async":
            yield {**op, "mode": "sync"}
        if "fault" in op:
            yield {k: v for k, v in op.items() if k != "fault"}
        if "edit_at" in op:
            yield {k: v for k, v in op.items() if k != "edit_at"}
        if "cancel_after" in op:
            yield {k: v for k, v in op.items() if k != "cancel_after"}


if __name__ == "__main__":
    sys.exit(driver.main(C22()))

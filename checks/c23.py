"""C23 - Caching loaders are transparent.

System: CachingDictLoader, CachingFileSystemLoader (on SimFS), CachingChoiceLoader
(FileSystemLoader + SimLoader + DictLoader) and CachingLoaderMixin composed with
SimLoader, driven by 1-5 concurrent client tasks on SimLoop issuing synchronous
and asynchronous requests (namespace by keyword, by render context, or through an
include/render tag) while an editor edits, deletes and recreates sources.

Model: the corresponding NON-caching loader over the same store, asked the same
request (sync requests: sync; async requests: the async path, driven inline so
it cannot suspend) at the step in which the caching request returns, plus a
versioned ModelStore giving the set of versions current during [invoke, return].

See DESIGN.md section 4 (C23) for the oracle list.
"""
from __future__ import annotations

import asyncio
import os
import re
import sys
import warnings

sys.path.insert(0, os.path.dirname(os.path.dirname(os.path.abspath(__file__))))

from simkit import driver  # noqa: E402
from simkit.driver import bump, new_result, shrink_list  # noqa: E402
from simkit.fs import FaultPlan, FaultyPath, SimFS  # noqa: E402
from simkit.loop import SimDeadlock, SimLoop, SimStepCap, run_inline  # noqa: E402
from simkit.rng import Rng, digest  # noqa: E402
from simkit.threads import SimLock, SimThreads, restore_locks, simulate_locks  # noqa: E402

import liquid  # noqa: E402
import liquid.builtin.loaders.file_system_loader as fsl_mod  # noqa: E402
import liquid.utils.lru_cache as lru_mod  # noqa: E402
from liquid import (BoundTemplate, CachingChoiceLoader, CachingDictLoader,  # noqa: E402
                    CachingFileSystemLoader, ChoiceLoader, DictLoader, Environment,
                    FileSystemLoader, RenderContext)
from liquid.builtin.loaders.mixins import CachingLoaderMixin  # noqa: E402
from liquid.exceptions import TemplateNotFoundError  # noqa: E402
from liquid.loader import BaseLoader, TemplateSource  # noqa: E402

TOKEN_RE = re.compile(r"\[([a-z]+)\|([^|\]]*)\|([^|\]]*)\|(\d+)\]")
NS_KEY = "uid"
NAMESPACES = ["u1", "u2", 0]      # 0: a falsy but perfectly good namespace (user id 0)
CHOICE_ORDER = ["fs", "sim", "dict"]   # delegate order of the choice loaders built here


def _realm_list(r):
    return [r] if isinstance(r, str) else list(r)


def nss(ns):
    """Namespace as the loaders see it: '' for none, else its string form."""
    return "" if ns is None else str(ns)


# ---------------------------------------------------------------------------
# versioned store (the trivial-inside reference for "what is current when")


class Store:
    def __init__(self):
        self.entries = {}     # ident -> list of versions
        self.tick = 0

    @staticmethod
    def text(ident, k):
        realm, ns, name = ident
        return "[%s|%s|%s|%d]{{ g }}{{ site }}{{ m }}{{ bomb.v }}" % (realm, ns, name, k)

    def versions(self, ident):
        return self.entries.get(ident, [])

    def current(self, ident):
        vs = self.entries.get(ident)
        if vs and vs[-1]["died"] is None:
            return vs[-1]
        return None

    def put(self, ident, seq, mtime_mode="next"):
        vs = self.entries.setdefault(ident, [])
        cur = vs[-1] if vs and vs[-1]["died"] is None else None
        # ticks are whole microseconds (exact integers: no two different ticks can round to one mtime)
        if mtime_mode == "next" or cur is None:
            self.tick += 1_000_000
            tick = self.tick
        elif mtime_mode == "same":
            tick = cur["tick"]
        elif mtime_mode == "tiny":        # saved again 100 microseconds later
            tick = cur["tick"] + 100
        elif mtime_mode == "tiny_back":   # replaced by a file that is 100 microseconds older
            tick = cur["tick"] - 100
        else:  # back
            tick = cur["tick"] - 1_000_000
        if cur is not None:
            cur["died"] = seq
        v = {"k": len(vs), "tick": tick, "born": seq, "died": None, "text": self.text(ident, len(vs))}
        vs.append(v)
        return v

    def delete(self, ident, seq):
        cur = self.current(ident)
        if cur is not None:
            cur["died"] = seq
        return cur

    def alive_during(self, ident, a, b):
        """Versions alive at some instant in [a, b]."""
        return [v for v in self.versions(ident)
                if v["born"] <= b and (v["died"] is None or v["died"] >= a)]

    def alive_at(self, ident, t):
        return any(v["born"] <= t and (v["died"] is None or t < v["died"]) for v in self.versions(ident))

    def dead_sometime(self, ident, a, b):
        """True if ident had no live version at some instant in [a, b]."""
        instants = [a] + [v["died"] for v in self.versions(ident)
                          if v["died"] is not None and a <= v["died"] <= b]
        return any(not self.alive_at(ident, t) for t in instants)


# ---------------------------------------------------------------------------
# world shared by the system under test and the model


class World:
    def __init__(self, sc, stats):
        self.sc = sc
        self.stats = stats
        self.store = Store()
        self.loop = None
        self.fs = None
        self.plan = FaultPlan()
        self.model_mode = 0
        self.loads = 0             # backing-store reads by the system under test
        self.sim_faults = []       # armed SimLoader / dict faults: [{"kind":..}]
        self.uptodate_faults = 0   # armed: the next uptodate() of a custom-loader template raises
        self.fault_seqs = []       # seqs at which a fault was armed or fired
        self.fall_through_ok = False   # an injected fault made a delegate LOOK as if it had not got the name
        self.dict_realm = CountingDict(self)

    def realm_of(self, name):
        return self.sc["realms"][name]

    def take_fault(self):
        if self.model_mode or not self.sim_faults:
            return None
        f = self.sim_faults.pop(0)
        self.fault_seqs.append(self.loop.seq)
        bump(self.stats, "fault.store_" + f["kind"])
        if f["kind"] == "notfound":
            self.fall_through_ok = True
        return f


class CountingDict(dict):
    def __init__(self, world):
        super().__init__()
        self.world = world

    def __getitem__(self, k):
        w = self.world
        if not w.model_mode:
            w.loads += 1
            f = w.take_fault()
            if f is not None:
                if f["kind"] == "oserror":
                    raise OSError(5, "injected EIO")
                raise KeyError(k)
        return super().__getitem__(k)


class SimLoader(BaseLoader):
    """A custom loader written against the documented extension points: the
    namespace narrows the search (kwargs first, then render context globals);
    get_source_async suspends for seeded latencies; uptodate is sync from
    get_source and async from get_source_async ('fs-like'), always sync, or None.
    """

    def __init__(self, world, style):
        super().__init__()
        self.world = world
        self.style = style

    def _ns(self, context, kwargs):
        if NS_KEY in kwargs:
            return str(kwargs[NS_KEY])
        if context is not None:
            try:
                return str(context.globals[NS_KEY])
            except KeyError:
                return ""
        return ""

    def _lookup(self, name, context, kwargs, is_async):
        w = self.world
        ns = self._ns(context, kwargs)
        if not w.model_mode:
            w.loads += 1
            f = w.take_fault()
            if f is not None:
                if f["kind"] == "oserror":
                    raise OSError(5, "injected EIO")
                raise TemplateNotFoundError(name)
        ident = ("sim", ns, name)
        v = w.store.current(ident)
        if v is None:
            raise TemplateNotFoundError(name)
        store = w.store

        def fresh():
            if w.uptodate_faults and not w.model_mode:
                w.uptodate_faults -= 1
                w.fault_seqs.append(w.loop.seq)
                bump(w.stats, "fault.uptodate_raised")
                raise OSError(5, "injected EIO in uptodate")
            return store.current(ident) is v

        if self.style == "none":
            up = None
        elif self.style == "sync" or not is_async:
            up = fresh
        else:
            loop = w.loop

            async def up_coro():
                await loop.latency("uptodate")
                return fresh()
            # a coroutine function, or (documented just as well) a plain callable that returns an awaitable
            up = (lambda: up_coro()) if w.sc.get("uptodate_lambda") else up_coro
        full = "%s/%s" % (ns, name) if ns else name
        return TemplateSource(v["text"], full, up, {"m": "%s:%s" % (ns, name)})

    def get_source(self, env, template_name, *, context=None, **kwargs):
        return self._lookup(template_name, context, kwargs, False)

    async def get_source_async(self, env, template_name, *, context=None, **kwargs):
        loop = self.world.loop
        await loop.latency("simloader.pre")
        src = self._lookup(template_name, context, kwargs, True)
        await loop.latency("simloader.post")
        return src


class CachingSimLoader(CachingLoaderMixin, SimLoader):
    def __init__(self, world, style, *, auto_reload, namespace_key, capacity, thread_safe):
        super().__init__(auto_reload=auto_reload, namespace_key=namespace_key, capacity=capacity,
                         thread_safe=thread_safe)
        SimLoader.__init__(self, world, style)


class TSCachingDictLoader(CachingLoaderMixin, DictLoader):
    def __init__(self, templates, **kw):
        super().__init__(thread_safe=True, **kw)
        DictLoader.__init__(self, templates)


class TSCachingFileSystemLoader(CachingLoaderMixin, FileSystemLoader):
    def __init__(self, search_path, ext=None, **kw):
        super().__init__(thread_safe=True, **kw)
        FileSystemLoader.__init__(self, search_path=search_path, ext=ext)


class TSCachingChoiceLoader(CachingLoaderMixin, ChoiceLoader):
    def __init__(self, loaders, **kw):
        super().__init__(thread_safe=True, **kw)
        ChoiceLoader.__init__(self, loaders)


class _NoCache:
    def items(self):
        return []

    def __len__(self):
        return 0


class _SeqShim:
    """What World needs of a loop when the clients are threads: a global event counter."""

    def __init__(self, sim):
        self.sim = sim
        self.log = []

    @property
    def seq(self):
        return self.sim.seq

    def event(self, site, actor=None):
        n = self.sim.next_seq()
        self.log.append((n, site))
        return n


THREAD_TRACE = ("liquid/builtin/loaders/mixins.py", "liquid/utils/lru_cache.py", "liquid/loader.py",
                "liquid/builtin/loaders/choice_loader.py", "liquid/builtin/loaders/dict_loader.py",
                "liquid/builtin/loaders/file_system_loader.py", "liquid/builtin/loaders/caching_file_system_loader.py")


def wrapper_name(tag, name):
    return "w_%s_%s" % (tag, name.replace("/", "_").replace(".", "_"))


def outcome_of(fn):
    try:
        return ("ok", fn())
    except TemplateNotFoundError:
        return ("err", "TemplateNotFoundError")
    except asyncio.CancelledError:
        raise
    except (SimDeadlock, SimStepCap):
        raise
    except Exception as e:  # noqa: BLE001 - an outcome to be judged
        return ("err", type(e).__name__, str(e)[:200])


class _Bomb:
    """Render data whose use raises: a render of the returned template that fails half way."""

    def __getitem__(self, k):
        raise ValueError("user data failed")

    def __liquid__(self):
        raise ValueError("user data failed")


HELD = []      # templates a caller keeps a reference to for the rest of the run (cleared per run)


def observe(t, op=None):
    """What a requester can see of a returned template."""
    if not isinstance(t, BoundTemplate):
        return {"bad": repr(t)[:100]}
    if op is not None and op.get("failing_use"):
        # the caller first renders it with data that raises in the middle of the render; whatever that
        # leaves behind on a (cached, shared) template object must not show in the next render
        try:
            t.render(bomb=_Bomb())
        except Exception:  # noqa: BLE001
            pass
    if op is not None and op.get("keep"):
        HELD.append(t)     # ... and keeps the object (evicted entries stay alive in the caller's hands)
    out = outcome_of(lambda: t.render(probe="P"))
    return {"name": t.name, "path": str(t.path), "matter": dict(t.matter), "src": str(t),
            "globals": dict(t.globals), "out": list(out)}


# ---------------------------------------------------------------------------


class C23:
    PROP = "C23"
    LEVEL = "exploration"
    NO_PIN = True   # no baton threads here: let the OS scheduler place the workers
    TIERS = {
        "quick": {"runs": 100000, "budget_s": 50, "chunk": 200, "determinism_runs": 48},
        "thorough": {"runs": 3000000, "budget_s": 1200, "chunk": 400, "determinism_runs": 256,
                     "minimise_s": 120},
    }
    RULE = ("Each run is one seeded history: 1-5 concurrent clients x <=12 requests total (quick) or <=40 "
            "(thorough) against one caching loader (dict / file-system / choice / mixin+custom), mixing "
            "get_template and get_template_async, namespace by keyword / render context / include or render "
            "tag, request globals none/{}/{..}, with edits (mtime next/same/back), deletes and recreates "
            "in between; 'fault' runs add injected store errors and cancellation of in-flight requests. "
            "Non-trivial = >=1 cache hit and >=1 of reload / eviction / sync-async overlap / namespace "
            "switch on one name; distinct = hash(scenario, interleaving signature).")
    STATE_MEASURE = "distinct (loader kind, capacity, ordered cache keys, per-key stale flag) tuples seen after a step"
    COMPONENTS = {
        "real": ["liquid.builtin.loaders.mixins.CachingLoaderMixin, CachingDictLoader, CachingChoiceLoader, "
                 "CachingFileSystemLoader, FileSystemLoader, DictLoader, ChoiceLoader, BaseLoader.load/load_async, "
                 "Environment.get_template[_async], include/render tags, BoundTemplate, LRUCache/ThreadSafeLRUCache "
                 "- all from /repo's working tree",
                 "CPython asyncio Task/Future machinery", "pathlib/os on a real tmpfs sandbox"],
        "stub": ["event loop selector and clock (SimLoop, virtual time)",
                 "thread-pool executor (jobs run inline at seeded virtual times)",
                 "file mtimes (os.utime from the fault plan)",
                 "pathlib.Path inside file_system_loader replaced by FaultyPath (counts calls, injects errno faults)",
                 "SimLoader: simulator-owned custom loader + versioned backing store with seeded latency"],
    }
    ASSUMPTIONS = [
        "asyncio ready queue is FIFO (kept); nondeterminism enters through latencies, executor completion, arrivals, cancellation",
        "freshness is demanded only where TemplateSource.uptodate exists (file-system, custom); DictLoader supplies none",
        "an edit that leaves st_mtime equal to a cached version's is undetectable by design and relaxes freshness for that key only",
        "a name lives in exactly one realm of a choice loader for the whole run (priority shadowing by later-created sources is not generated)",
        "requests whose name itself starts with '<namespace>/' are not generated (inherent cache-key ambiguity)",
    ]
    REQUIRED_REACH = ["fault.uptodate_raised", "reach.hit", "reach.reload", "reach.evict", "reach.sync_during_async", "reach.ns_switch",
                      "reach.edit_in_flight", "reach.same_tick_edit", "reach.back_tick_edit", "reach.sub_millisecond_edit",
                      "fault.cancel_landed", "fault.store_notfound", "fault.store_oserror", "fault.fs_errno",
                      "reach.thread_switch_inside_request", "reach.thread_lock_contended", "reach.second_event_loop"]

    # -- generation ------------------------------------------------------------
    def gen(self, run_seed, tier):
        rng = Rng(run_seed, ("gen",))
        config = rng.weighted([("fault", 35), ("nofault", 53), ("threads", 12)])
        kind = rng.weighted([("cdict", 2), ("cfs", 4), ("cchoice", 3), ("cmixin", 4)])
        ns_key = NS_KEY if rng.chance(0.6) else ""
        names = ["a", "b", "d/p", "c.txt", "c.txt.liquid"][: rng.randint(1, 5)]
        realms = {}
        for n in names:
            realms[n] = {"cdict": "dict", "cfs": "fs", "cmixin": "sim"}.get(kind) or rng.choice(["fs", "sim", "dict"])
            if kind == "cchoice" and rng.chance(0.5):
                # the name exists (or may come to exist) in several delegates: the configured
                # order decides, whatever was served or cached before
                realms[n] = [r for r in CHOICE_ORDER if r == realms[n] or rng.chance(0.6)]
        use_ns = bool(ns_key)
        max_req = 12 if tier == "quick" else rng.choice([12, 12, 24, 40])
        nclients = rng.randint(1, 5)
        idents = []
        for n in names:
            for r in _realm_list(realms[n]):
                if r == "sim" and use_ns:
                    idents += [["sim", ns, n] for ns in ["", "u1", "u2", "0"]]
                else:
                    idents.append([r, "", n])
        multi = any(len(_realm_list(realms[n])) > 1 for n in names)
        initial = [i for i in idents if rng.chance(0.55 if multi else 0.8)]
        uid = [0]

        def gen_req():
            name = rng.choice(names) if rng.chance(0.93) else "zz"
            ns = rng.choice(NAMESPACES) if use_ns and rng.chance(0.75) else None
            via = rng.weighted([("kw", 6), ("ctx", 2), ("tag:include", 2), ("tag:render", 1), ("tag:extends", 1)])
            if ns is None and via == "ctx" and rng.chance(0.5):
                via = "kw"
            ctx_ns = None
            if ns is not None and via == "kw" and rng.chance(0.2):
                # a namespace by keyword AND a (different) one in the render context: the keyword wins
                via = "both"
                ctx_ns = rng.choice([u for u in NAMESPACES if u != ns])
            g = rng.weighted([(None, 4), ({}, 1), ({"g": "G%d" % rng.randint(1, 3)}, 4)])
            op = {"op": "req", "mode": "sync" if config == "threads" else rng.choice(["sync", "async"]),
                  "name": name, "ns": ns, "via": via, "globals": g}
            if ctx_ns is not None:
                op["ctx_ns"] = ctx_ns
            if via.startswith("tag:") and use_ns and rng.chance(0.25):
                # the wrapper template binds a LOCAL variable named like the namespace key before it
                # includes the partial: namespaces are read from the render context's globals, never its locals
                op["local_ns"] = rng.choice(["u1", "u2", 0])
            if via == "ctx" and rng.chance(0.5):
                op["ctx_reuse"] = True     # the caller keeps ONE render context for all its requests
            if not via.startswith("tag:"):
                if rng.chance(0.15):
                    op["failing_use"] = True
                if rng.chance(0.3):
                    op["keep"] = True
            if via.startswith("tag:") and rng.chance(0.35):
                # the page that includes / renders / extends the partial is itself a stored template, loaded
                # through the same loader (cached once, shared by every tenant) instead of parsed per request
                op["cached_wrapper"] = True
            if config == "fault" and op["mode"] == "async" and rng.chance(0.25):
                op["cancel_after"] = round(rng.random() * 0.02, 5)
            return op

        def gen_op():
            x = rng.random()
            if x < 0.68:
                op = gen_req()
            elif x < 0.86:
                op = {"op": "edit", "ident": rng.choice(idents),
                      "mtime": rng.weighted([("next", 6), ("same", 2), ("back", 2), ("tiny", 1.5), ("tiny_back", 1)])}
            elif x < 0.93:
                op = {"op": "delete", "ident": rng.choice(idents)}
            elif config == "fault":
                op = {"op": "fault", "kind": rng.choice(["notfound", "oserror", "fs:EIO", "fs:EACCES", "fs:ENOENT",
                                                         "uptodate"]), "n": 1}
            else:
                op = gen_req()
            uid[0] += 1
            op["uid"] = uid[0]
            return op

        clients = [{"id": c, "ops": []} for c in range(nclients)]
        nreq = 0
        total = rng.randint(2, max_req + 6)
        for _ in range(total):
            op = gen_op()
            if op["op"] == "req":
                if nreq >= max_req:
                    continue
                nreq += 1
            rng.choice(clients)["ops"].append(op)
        return {
            "config": config, "loader": kind, "capacity": rng.randint(1, 4),
            "auto_reload": rng.chance(0.8), "ns_key": ns_key,
            "thread_safe": config == "threads" or (kind == "cmixin" and rng.chance(0.3)),
            "uptodate": rng.weighted([("fs-like", 5), ("sync", 3), ("none", 1)]),
            "switch_p": rng.choice([0.05, 0.3, 0.7]), "granularity": rng.choice(["line", "line", "opcode"]),
            "factory": rng.chance(0.3), "fs_links": rng.chance(0.25), "uptodate_lambda": rng.chance(0.4),
            # delegates of the choice loader that are caching loaders themselves (only their
            # get_source is used, so this must change nothing)
            "caching_delegates": kind == "cchoice" and rng.chance(0.3),
            # the application runs its requests in two successive event loops (asyncio.run twice)
            # over the same environment and loader
            "segments": 2 if config != "threads" and rng.chance(0.2) else 1,
            "ext": ".liquid" if rng.chance(0.3) else None,
            "env_globals": {"site": "S"} if rng.chance(0.5) else {},
            "names": names, "realms": realms, "initial": initial, "clients": clients,
            "sched_seed": rng.randrange(1 << 30),
            "lat": {"max": rng.choice([0.001, 0.01, 0.01, 0.1]), "zero_p": rng.choice([0.1, 0.3, 0.6]),
                    "stall_p": rng.choice([0.0, 0.0, 0.05])},
        }

    # -- build -----------------------------------------------------------------
    def _fs_rel(self, sc, name):
        if sc["ext"] and "." not in name.rsplit("/", 1)[-1]:
            return name + sc["ext"]
        return name

    def _build_loader(self, sc, w, caching):
        kind = sc["loader"]
        kw = dict(auto_reload=sc["auto_reload"], namespace_key=sc["ns_key"], capacity=sc["capacity"])
        root = w.fs.path("root")
        if caching and sc["config"] == "threads":
            # OS threads need the thread-safe map: the mixin composed with each base loader the
            # documented way (the built-in Caching* classes use the plain map)
            if kind == "cdict":
                return TSCachingDictLoader(w.dict_realm, **kw)
            if kind == "cfs":
                return TSCachingFileSystemLoader(root, ext=sc["ext"], **kw)
            if kind == "cmixin":
                return CachingSimLoader(w, sc["uptodate"], thread_safe=True, **kw)
            return TSCachingChoiceLoader([FileSystemLoader(root, ext=sc["ext"]), SimLoader(w, sc["uptodate"]),
                                          DictLoader(w.dict_realm)], **kw)
        if kind == "cdict":
            return CachingDictLoader(w.dict_realm, **kw) if caching else DictLoader(w.dict_realm)
        if kind == "cfs":
            if sc.get("factory"):     # the documented factory functions build the same loaders
                return liquid.make_file_system_loader(root, ext=sc["ext"], auto_reload=sc["auto_reload"],
                                                      namespace_key=sc["ns_key"],
                                                      cache_size=sc["capacity"] if caching else 0)
            if caching:
                return CachingFileSystemLoader(root, ext=sc["ext"], **kw)
            return FileSystemLoader(root, ext=sc["ext"])
        if kind == "cmixin":
            if caching:
                return CachingSimLoader(w, sc["uptodate"], thread_safe=sc["thread_safe"], **kw)
            return SimLoader(w, sc["uptodate"])
        subs = [FileSystemLoader(root, ext=sc["ext"]), SimLoader(w, sc["uptodate"]), DictLoader(w.dict_realm)]
        if caching and sc.get("caching_delegates"):
            ikw = dict(auto_reload=sc["auto_reload"], capacity=sc["capacity"])
            subs = [CachingFileSystemLoader(root, ext=sc["ext"], **ikw),
                    CachingSimLoader(w, sc["uptodate"], thread_safe=False, namespace_key="", **ikw),
                    CachingDictLoader(w.dict_realm, **ikw)]
        if sc.get("factory"):
            return liquid.make_choice_loader(subs, auto_reload=sc["auto_reload"], namespace_key=sc["ns_key"],
                                             cache_size=sc["capacity"] if caching else 0)
        return CachingChoiceLoader(subs, **kw) if caching else ChoiceLoader(subs)

    def _store_wrappers(self, sc, w):
        """Stored pages that include / render / extend each partial (never edited)."""
        realm = {"cdict": "dict", "cfs": "fs", "cmixin": "sim"}.get(sc["loader"], "dict")
        for tag in ("include", "render", "extends"):
            for n in sc["names"]:
                text = "<{%% %s '%s' %%}>" % (tag, n)
                wname = wrapper_name(tag, n)
                ident = (realm, "", wname)
                seq = w.loop.event("wrapper") if w.loop else 0
                v = w.store.put(ident, seq, "next")
                v["text"] = text
                if realm == "fs":
                    w.plan.enabled = False
                    w.fs.write("root/" + self._fs_rel(sc, wname), text, 0.5)
                    w.plan.enabled = True
                elif realm == "dict":
                    dict.__setitem__(w.dict_realm, wname, text)

    # -- store mutation (editor) ---------------------------------------------------
    def _apply_put(self, sc, w, ident, mode):
        ident = tuple(ident)
        seq = w.loop.event("edit") if w.loop else 0
        had = w.store.current(ident) is not None
        v = w.store.put(ident, seq, mode)
        realm, ns, name = ident
        if realm == "fs":
            w.plan.enabled = False
            rel = self._fs_rel(sc, name)
            if sc.get("fs_links"):
                # the search directory holds symbolic links to the real files (a deploy layout):
                # an edit changes the target, the link itself never changes
                w.fs.write("real/" + rel, v["text"], v["tick"] / 1e6)
                link = w.fs.path("root/" + rel)
                if not os.path.islink(link):
                    os.makedirs(os.path.dirname(link), exist_ok=True)
                    os.symlink(w.fs.path("real/" + rel), link)
            else:
                w.fs.write("root/" + rel, v["text"], v["tick"] / 1e6)
            w.plan.enabled = True
        elif realm == "dict":
            dict.__setitem__(w.dict_realm, name, v["text"])
        if had and w.loop:
            bump(w.stats, {"same": "reach.same_tick_edit", "back": "reach.back_tick_edit",
                           "tiny": "reach.sub_millisecond_edit", "tiny_back": "reach.sub_millisecond_edit"}.get(mode, "edit.next"))
        return v

    def _apply_delete(self, sc, w, ident):
        ident = tuple(ident)
        seq = w.loop.event("delete")
        v = w.store.delete(ident, seq)
        realm, ns, name = ident
        if realm == "fs":
            w.fs.delete("root/" + self._fs_rel(sc, name))
        elif realm == "dict":
            dict.pop(w.dict_realm, name, None)
        if v is not None:
            bump(w.stats, "edit.delete")

    # -- model: what may a request resolve to ------------------------------------------
    def _candidates(self, sc, name, ns):
        """Sources a request for (name, ns) may resolve to, in delegate priority order."""
        out = []
        for realm in _realm_list(sc["realms"].get(name) or []):
            out.append(("sim", nss(ns), name) if realm == "sim" else (realm, "", name))
        return out

    # -- execution ---------------------------------------------------------------
    def run(self, sc):
        res = new_result()
        st = res["stats"]
        w = World(sc, st)
        del HELD[:]
        w.fs = SimFS()
        saved_path = fsl_mod.Path
        fsl_mod.Path = FaultyPath
        FaultyPath.plan = w.plan
        viol = res["violations"]
        # the thread-safe map always runs on the simulated lock: outside thread mode it behaves as an
        # uncontended lock, and a lock left held by an earlier operation raises instead of hanging
        saved_lock0 = lru_mod.Lock
        lru_mod.Lock = SimLock
        SimLock.sim = None
        try:
            with warnings.catch_warnings(record=True) as wlist:
                warnings.simplefilter("always")
                if sc["config"] == "threads":
                    self._run_threads_world(sc, w, res)
                else:
                    self._run_world(sc, w, res)
            for x in wlist:
                if "never awaited" in str(x.message):
                    bump(st, "warn.never_awaited")
        finally:
            lru_mod.Lock = saved_lock0
            SimLock.sim = None
            fsl_mod.Path = saved_path
            FaultyPath.plan = None
            w.fs.close()
        if len(viol) > 1:  # keep the first of each signature
            seen, out = set(), []
            for v in viol:
                if v["sig"] not in seen:
                    seen.add(v["sig"])
                    out.append(v)
            res["violations"] = out
        return res

    def _run_world(self, sc, w, res):
        st = res["stats"]
        viol = res["violations"]
        w.fs.mkdir("root")
        # decoys: files that only a mis-routed request ("<ns>/<name>") could reach
        for ns in map(nss, NAMESPACES):
            for n in sc["names"]:
                w.fs.write("root/%s/%s" % (ns, self._fs_rel(sc, n)), "[decoy|%s|%s|0]" % (ns, n), 0)
                dict.__setitem__(w.dict_realm, "%s/%s" % (ns, n), "[decoy|%s|%s|0]" % (ns, n))
        for ident in sc["initial"]:
            self._apply_put(sc, w, ident, "next")
        self._store_wrappers(sc, w)
        loop = SimLoop(Rng(sc["sched_seed"], ("sched",)), step_cap=60000, lat_profile=sc["lat"])
        w.loop = loop
        sut_env = Environment(extra=True, loader=self._build_loader(sc, w, True), globals=dict(sc["env_globals"]))
        mod_env = Environment(extra=True, loader=self._build_loader(sc, w, False), globals=dict(sc["env_globals"]))
        cache = getattr(sut_env.loader, "cache", None)
        if cache is None:       # whatever was built keeps no cache the checker can look into:
            cache = _NoCache()  # the requests are judged all the same
            bump(st, "sut.loader_without_cache_attribute")
        cap = sc["capacity"]
        first_req = {}          # cache key -> seq of the first request for it
        kept_contexts = {}      # render contexts a caller re-uses for several requests
        in_flight_async = [0]
        flags = {"hit": 0, "reload": 0, "evict": 0, "sync_during_async": 0, "ns_switch": 0}
        last_ns_for_name = {}
        history = []

        def add(oracle, sig, detail):
            viol.append({"oracle": oracle, "sig": sig, "detail": detail})

        def request(env, op, inline):
            """Return a zero-arg callable (sync) or coroutine function (async) performing op on env."""
            name, ns, via, g = op["name"], op["ns"], op["via"], op["globals"]
            kwargs = {}
            if via == "kw":
                if ns is not None:
                    kwargs[NS_KEY] = ns
            elif via == "ctx":
                gl = {NS_KEY: ns} if ns is not None else {}
                if op.get("ctx_reuse") and not inline:
                    key = ("ctx", id(env), repr(ns))
                    if key not in kept_contexts:
                        kept_contexts[key] = RenderContext(env.from_string(""), globals=gl)
                    kwargs["context"] = kept_contexts[key]
                else:
                    kwargs["context"] = RenderContext(env.from_string(""), globals=gl)
            elif via == "both":
                kwargs[NS_KEY] = ns
                kwargs["context"] = RenderContext(env.from_string(""), globals={NS_KEY: op["ctx_ns"]})
            if via.startswith("tag:"):
                tag = via[4:]
                pre = ""
                if op.get("local_ns") is not None and tag != "extends":
                    pre = "{%% assign %s = %s %%}" % (NS_KEY, ("'%s'" % op["local_ns"]) if isinstance(op["local_ns"], str)
                                                     else op["local_ns"])
                data = {NS_KEY: ns} if ns is not None else {}
                if op.get("cached_wrapper") and name in sc["names"]:
                    wname = wrapper_name(tag, name)
                    if op["mode"] == "sync":
                        return lambda: env.get_template(wname, globals=g).render(**data)

                    async def go_w():
                        t = await env.get_template_async(wname, globals=g)
                        return await t.render_async(**data)
                    return go_w
                wrapper = env.from_string("<%s{%% %s '%s' %%}>" % (pre, tag, name), globals=g)
                if op["mode"] == "sync":
                    return lambda: wrapper.render(**data)
                return lambda: wrapper.render_async(**data)
            if op["mode"] == "sync":
                return lambda: observe(env.get_template(name, globals=g, **kwargs), None if inline else op)

            async def go():
                return observe(await env.get_template_async(name, globals=g, **kwargs), None if inline else op)
            return go

        def model_answer(op):
            w.model_mode += 1
            try:
                fn = request(mod_env, op, True)
                if op["mode"] == "sync":
                    return outcome_of(fn)
                return outcome_of(lambda: run_inline(loop, fn()))
            finally:
                w.model_mode -= 1

        def cache_key_of(op):
            if sc["ns_key"] and op["ns"] is not None:
                return "%s/%s" % (nss(op["ns"]), op["name"])
            return op["name"]

        def judge(op, inv, ret, got, loads_before, cancelled, missed=False):
            ck = cache_key_of(op)
            cands = self._candidates(sc, op["name"], op["ns"])
            mode, via = op["mode"], op["via"]
            tagreq = via.startswith("tag:")
            faulted = any(inv <= s <= ret for s in w.fault_seqs)
            want = model_answer(op)
            history.append([op["uid"], inv, ret, mode, via, op["name"], op["ns"],
                            got[:2] if tagreq or got[0] == "err" else
                            ("ok", got[1].get("src"), got[1].get("globals"))])
            if got[0] == "err" and got[1] != "TemplateNotFoundError":
                if faulted and got[1] in ("OSError", "PermissionError", "FileNotFoundError"):
                    bump(st, "fault.request_failed_with_injected_error")
                    return
                if (got[1] in ("FileNotFoundError", "OSError") and mode == "async"
                        and any(c[0] == "fs" and w.store.dead_sometime(c, inv, ret)
                                and w.store.alive_during(c, inv, ret) for c in cands)):
                    # a delete landed between the two executor jobs (resolve, read) of this
                    # request: the non-caching loader has the same check-then-open race and
                    # the property does not quantify over it; counted, not reported
                    bump(st, "relaxed.delete_raced_request")
                    return
                add("errors", "errors:%s:%s:%s:%s" % (got[1], mode, "tag" if tagreq else "direct", sc["loader"]),
                    {"op": op, "raised": got[1:], "model": _brief(want)})
                return
            # --- the window in which what we got must have been current -------------------
            # `missed`: the key was not cached when the request was invoked and nobody else could
            # have put it there, so whatever is returned was loaded during this request
            lo_hist = inv if missed else first_req[ck]
            if got[0] == "err":  # TemplateNotFoundError
                if want[0] == "err" and want[1] == "TemplateNotFoundError":
                    return
                if faulted:
                    bump(st, "fault.request_failed_with_injected_error")
                    return
                if all(w.store.dead_sometime(c, _lo(c, inv, lo_hist), ret) for c in cands):
                    bump(st, "relaxed.notfound_overlapping_delete")
                    return
                add("errors", "errors:spurious-notfound:%s:%s" % (mode, "tag" if tagreq else "direct"),
                    {"op": op, "model": _brief(want)})
                return
            text = got[1] if tagreq else got[1].get("src", "")
            if not tagreq and "bad" in got[1]:
                add("same-template", "same-template:not-a-template", {"op": op, "got": got[1]})
                return
            m = TOKEN_RE.search(text if isinstance(text, str) else "")
            if not m:
                add("integrity", "integrity:no-token", {"op": op, "got": _brief(got)})
                return
            oid = (m.group(1), m.group(2), m.group(3))
            ok_ver = int(m.group(4))
            if oid not in cands:
                kindv = "wrong-namespace" if any(oid[2] == c[2] and oid[0] == c[0] for c in cands) else (
                    "decoy" if oid[0] == "decoy" else "wrong-name")
                add("integrity", "integrity:%s:%s:%s" % (kindv, mode, "tag" if tagreq else via),
                    {"op": op, "resolved_to": oid, "expected": cands, "model": _brief(want)})
                return
            ident = oid
            # --- exact agreement with the non-caching loader at the return instant
            if got == want:
                return
            strict = _strict(ident)
            lo = _lo(ident, inv, lo_hist)
            alive = w.store.alive_during(ident, lo, ret)
            ticks = {v["tick"] for v in alive}
            acc = {v["k"] for v in alive}
            if ident[0] == "fs":
                acc |= {v["k"] for v in w.store.versions(ident) if v["tick"] in ticks and v["born"] <= ret}
            vers_ok = ok_ver in acc
            if want[0] == "ok":
                wtext = want[1] if tagreq else want[1].get("src", "")
                wm = TOKEN_RE.search(wtext)
                same_but_version = wm is not None and _strip_ver(got, tagreq) == _strip_ver(want, tagreq)
            else:
                wm = None
                same_but_version = None
            if not vers_ok:
                add("freshness", "freshness:stale:%s:%s:%s" % (ident[0], mode, "strict" if strict else "relaxed"),
                    {"op": op, "got_version": ok_ver, "acceptable": sorted(acc), "window": [lo, ret],
                     "versions": [{k: v[k] for k in ("k", "tick", "born", "died")} for v in w.store.versions(ident)]})
                return
            # --- delegate priority: every delegate in front of the one that answered must have
            # been without the name at some instant since this cache entry can have been loaded
            # (a cached, up-to-date entry cannot notice a source created later in a delegate that
            # comes first: counted, not reported; a miss or reload must honour the order)
            for c in cands[:cands.index(ident)]:
                if not w.store.dead_sometime(c, lo_hist if not missed else inv, ret):
                    if sc["config"] == "fault" and w.fall_through_ok:
                        # an injected "not found" in a delegate (ENOENT while resolving, a store
                        # answering not-found) legitimately falls through to the next one, and the
                        # entry cached from it keeps being served.  Any OTHER injected error (EIO,
                        # EACCES, an OSError from the store) fails the request and must leave
                        # nothing behind, so priority is judged as in the fault-free configuration
                        bump(st, "relaxed.fault_fell_through_to_lower_delegate")
                        return
                    add("priority", "priority:lower-delegate:%s:%s" % (mode, "miss" if missed else "cached"),
                        {"op": op, "answered_from": ident, "shadowed_by": c, "window": [lo_hist, ret],
                         "model": _brief(want)})
                    return
            if wm is not None and (wm.group(1), wm.group(2), wm.group(3)) != ident:
                bump(st, "relaxed.cached_entry_shadowed_by_later_source")
                return
            if same_but_version is False:
                # right source, acceptable version, but name/path/matter/globals/behaviour differ
                diff = _diff(got, want, tagreq)
                if diff == ["globals", "out"] or diff == ["globals"]:
                    add("globals", "globals:%s" % ("stale" if not op["globals"] else "wrong"),
                        {"op": op, "got": got[1].get("globals"), "want": want[1].get("globals")})
                else:
                    add("same-template", "same-template:%s:%s" % ("+".join(diff), mode),
                        {"op": op, "got": _brief(got), "want": _brief(want)})
                return
            if same_but_version is None and not faulted:
                # model says not found now; we served a version acceptable for the window
                bump(st, "relaxed.served_while_deleted")
            if ok_ver != (w.store.current(ident) or {"k": -1})["k"]:
                bump(st, "relaxed.older_acceptable_version")

        def _strict(ident):
            return bool(sc["auto_reload"] and (ident[0] == "fs" or (ident[0] == "sim" and sc["uptodate"] != "none")))

        def _lo(ident, inv, lo_hist):
            """Start of the window in which a returned version of `ident` must have been current."""
            return inv if _strict(ident) else lo_hist

        def check_cache(where):
            try:
                n = len(cache)
                items = list(cache.items())
            except Exception as e:  # noqa: BLE001
                add("cache", "cache:listing-raised:%s" % type(e).__name__, {"where": where})
                return
            if n > cap:
                add("cache", "cache:over-capacity", {"len": n, "capacity": cap, "where": where})
            sig = []
            for k, t in items:
                if not isinstance(t, BoundTemplate):
                    add("cache", "cache:bad-entry", {"key": k, "value": repr(t)[:80], "where": where})
                    continue
                if k.startswith("w_") or "/w_" in k:
                    sig.append((k, False))
                    continue        # a stored wrapper page
                m = TOKEN_RE.search(str(t))
                if not m:
                    add("cache", "cache:bad-entry", {"key": k, "value": str(t)[:80], "where": where})
                    continue
                ns, name = "", k
                if sc["ns_key"]:
                    for u in map(nss, NAMESPACES):
                        if k.startswith(u + "/"):
                            ns, name = u, k[len(u) + 1:]
                cands = self._candidates(sc, name, ns or None)
                oid = (m.group(1), m.group(2), m.group(3))
                if oid not in cands:
                    add("cache", "cache:foreign-entry", {"key": k, "holds": oid, "expected": cands, "where": where})
                cur = w.store.current(oid)
                sig.append((k, cur is None or cur["k"] != int(m.group(4))))
            res["states"].append(int(digest((sc["loader"], cap, sig))[:12], 16))

        async def client(c):
            me = "c%d" % c["id"]
            for op in c["ops"]:
                loop.streams[me] = loop.rng.fork("op", op["uid"])
                await loop.latency("think")
                kind = op["op"]
                if kind == "edit":
                    if in_flight_async[0]:
                        bump(st, "reach.edit_in_flight")
                    self._apply_put(sc, w, op["ident"], op["mtime"])
                elif kind == "delete":
                    self._apply_delete(sc, w, op["ident"])
                elif kind == "fault":
                    bump(st, "fault.armed")
                    w.fault_seqs.append(loop.event("fault.arm"))
                    if op["kind"].startswith("fs:"):
                        w.plan.faults.append({"at": w.plan.calls + 1, "kind": "any", "errno": op["kind"][3:]})
                    elif op["kind"] == "uptodate":
                        w.uptodate_faults += 1
                    else:
                        w.sim_faults.append({"kind": op["kind"]})
                else:
                    await do_request(me, op)
                check_cache("after %s uid=%d" % (kind, op["uid"]))
                if viol:
                    return

        async def do_request(me, op):
            inv = loop.event("req.invoke")
            first_req.setdefault(cache_key_of(op), inv)
            bump(st, "req." + op["mode"])
            bump(st, "req.via." + op["via"])
            loads0 = w.loads + w.plan.by_kind.get("open", 0)
            keys0 = [k for k, _ in cache.items()]
            nfired0 = len(w.plan.fired)
            fn = request(sut_env, op, False)
            cancelled = False
            # a miss for certain: not cached now and nobody else can cache it before we look
            missed = cache_key_of(op) not in keys0 and (op["mode"] == "sync" or in_flight_async[0] == 0)
            if missed:
                bump(st, "req.certain_miss")
            if op["mode"] == "sync":
                if in_flight_async[0]:
                    flags["sync_during_async"] += 1
                got = outcome_of(fn)
            else:
                in_flight_async[0] += 1
                try:
                    if op.get("cancel_after") is not None:
                        sub = loop.create_task(fn(), name="%s.r%d" % (me, op["uid"]))
                        loop.streams[sub.get_name()] = loop.rng.fork("op", op["uid"], "sub")
                        fired = []
                        h = loop.call_later(op["cancel_after"], lambda: (fired.append(1), sub.cancel()))
                        try:
                            got = ("ok", await sub)
                        except asyncio.CancelledError:
                            if not sub.cancelled():
                                raise
                            if fired:
                                cancelled = True
                                got = ("cancelled",)
                            else:   # nobody cancelled this request
                                got = ("err", "CancelledError", "request was not cancelled by anyone")
                        except TemplateNotFoundError:
                            got = ("err", "TemplateNotFoundError")
                        except (SimDeadlock, SimStepCap):
                            raise
                        except Exception as e:  # noqa: BLE001
                            got = ("err", type(e).__name__, str(e)[:200])
                        h.cancel()
                    else:
                        try:
                            got = ("ok", await fn())
                        except TemplateNotFoundError:
                            got = ("err", "TemplateNotFoundError")
                        except (SimDeadlock, SimStepCap):
                            raise
                        except asyncio.CancelledError:
                            t = asyncio.current_task()
                            if t is not None and t.cancelling():
                                raise
                            got = ("err", "CancelledError", "request was not cancelled by anyone")
                        except Exception as e:  # noqa: BLE001
                            got = ("err", type(e).__name__, str(e)[:200])
                finally:
                    in_flight_async[0] -= 1
            ret = loop.event("req.return")
            for f in w.plan.fired[nfired0:]:
                if f[0] != "action":
                    bump(st, "fault.fs_errno")
                    w.fault_seqs.append(ret)
                    if f[0] == "ENOENT" and f[2] != "open":
                        w.fall_through_ok = True   # "no such file" while resolving: the next delegate answers
            loads = w.loads + w.plan.by_kind.get("open", 0) - loads0
            keys1 = [k for k, _ in cache.items()]
            ck = cache_key_of(op)
            if cancelled:
                bump(st, "fault.cancel_landed")
                history.append([op["uid"], inv, ret, "cancelled"])
                return
            if got[0] == "ok" and loads == 0 and not op["via"].startswith("tag:"):
                flags["hit"] += 1
            if got[0] == "ok" and loads > 0 and ck in keys0:
                flags["reload"] += 1
            if len(keys0) == cap and any(k not in keys1 for k in keys0):
                flags["evict"] += 1
            if op["ns"] is not None:
                prev = last_ns_for_name.get(op["name"])
                if prev is not None and prev != op["ns"]:
                    flags["ns_switch"] += 1
                last_ns_for_name[op["name"]] = op["ns"]
            judge(op, inv, ret, tuple(got) if got[0] != "ok" else ("ok", got[1]), loads0, cancelled, missed)

        nseg = sc.get("segments", 1)

        def part(c, si):
            ops = c["ops"]
            if nseg == 1:
                return ops
            h = (len(ops) + 1) // 2
            return ops[:h] if si == 0 else ops[h:]

        async def root(si):
            tasks = [loop.create_task(client({**c, "ops": part(c, si)}), name="c%d" % c["id"])
                     for c in sc["clients"] if part(c, si)]
            if tasks:
                await asyncio.gather(*tasks)

        totals = {"jobs": 0, "ooo": 0, "susp": 0, "time": 0.0, "steps": 0, "isig": []}
        try:
            for si in range(nseg):
                if si > 0:
                    # a second event loop over the same environment, loader, cache and store
                    prev = loop
                    loop = SimLoop(Rng(sc["sched_seed"], ("sched", si)), step_cap=60000, lat_profile=sc["lat"])
                    loop.seq = prev.seq
                    loop.log = prev.log
                    w.loop = loop
                    bump(st, "reach.second_event_loop")
                loop.run_sim(root(si))
                totals["jobs"] += loop.executor_jobs
                totals["ooo"] += loop.executor_out_of_order
                totals["susp"] += loop.suspensions
                totals["time"] += loop.time()
                totals["steps"] += loop.steps
                totals["isig"].append(loop.interleaving_signature())
                if viol:
                    break
        except SimDeadlock:
            add("liveness", "liveness:deadlock", {"log_tail": loop.log[-12:]})
        except SimStepCap:
            raise RuntimeError("HARNESS-TIMEOUT: SimLoop step cap")
        for k, v in flags.items():
            if v:
                bump(st, "reach." + k, v)
        bump(st, "runs." + sc["config"])
        bump(st, "runs.loader." + sc["loader"])
        bump(st, "exec.jobs", totals["jobs"])
        bump(st, "reach.exec_out_of_order", totals["ooo"])
        bump(st, "suspensions", totals["susp"])
        res["sim_time"] = totals["time"]
        res["steps"] = totals["steps"]
        res["isig"] = totals["isig"][0] if len(totals["isig"]) == 1 else digest(totals["isig"])
        res["digest"] = digest((loop.log, history))
        res["nontrivial"] = bool(flags["hit"] and (flags["reload"] or flags["evict"] or
                                                    flags["sync_during_async"] or flags["ns_switch"]))

    # -- the same requests from OS threads (thread-safe map) ----------------------------------
    def _run_threads_world(self, sc, w, res):
        """Synchronous requests, edits and deletes from 1-5 real threads under the seeded baton
        scheduler, pre-empted at every line (or instruction) of the loader modules and at every lock
        operation.  Judged per request: never an exception other than TemplateNotFoundError; the
        returned source belongs to the requested (namespace, name), honours delegate order and is a
        version that was current during the request (or since the key was first requested where the
        source cannot signal change).  Globals are NOT judged here: the cached template object is
        shared by design, so another thread's request may legitimately re-assign them."""
        st = res["stats"]
        viol = res["violations"]
        w.fs.mkdir("root")
        for ns in map(nss, NAMESPACES):
            for n in sc["names"]:
                w.fs.write("root/%s/%s" % (ns, self._fs_rel(sc, n)), "[decoy|%s|%s|0]" % (ns, n), 0)
                dict.__setitem__(w.dict_realm, "%s/%s" % (ns, n), "[decoy|%s|%s|0]" % (ns, n))
        for ident in sc["initial"]:
            self._apply_put(sc, w, ident, "next")
        gran = sc.get("granularity", "line")
        trace = THREAD_TRACE if gran == "line" else THREAD_TRACE[:4]
        sim = SimThreads(Rng(sc["sched_seed"], ("tsched",)), switch_p=sc.get("switch_p", 0.3), trace_files=trace,
                         step_cap=3_000_000, granularity=gran)
        w.loop = _SeqShim(sim)
        saved_lock = lru_mod.Lock
        lru_mod.Lock = SimLock
        SimLock.sim = None
        history = []
        first_req = {}
        inside = [0]

        def add(oracle, sig, detail):
            viol.append({"oracle": oracle, "sig": sig, "detail": detail})
        try:
            env = Environment(extra=True, loader=self._build_loader(sc, w, True), globals=dict(sc["env_globals"]))
            cache = env.loader.cache
            cap = sc["capacity"]
            undo_locks = simulate_locks(cache) + simulate_locks(env.loader)
            SimLock.sim = sim

            def cache_key_of(op):
                if sc["ns_key"] and op["ns"] is not None:
                    return "%s/%s" % (nss(op["ns"]), op["name"])
                return op["name"]

            def do_req(op):
                name, ns, via, g = op["name"], op["ns"], op["via"], op["globals"]
                kwargs = {}
                if via in ("kw", "both") and ns is not None:
                    kwargs[NS_KEY] = ns
                if via == "ctx":
                    kwargs["context"] = RenderContext(env.from_string(""), globals={NS_KEY: ns} if ns is not None else {})
                elif via == "both":
                    kwargs["context"] = RenderContext(env.from_string(""), globals={NS_KEY: op["ctx_ns"]})
                inv = sim.next_seq()
                ck = cache_key_of(op)
                first_req.setdefault(ck, inv)
                sw0 = sim.switches
                if via.startswith("tag:"):
                    wrapper = env.from_string("<{%% %s '%s' %%}>" % (via[4:], name), globals=g)
                    data = {NS_KEY: ns} if ns is not None else {}
                    got = outcome_of(lambda: wrapper.render(**data))
                else:
                    got = outcome_of(lambda: str(env.get_template(name, globals=g, **kwargs)))
                ret = sim.next_seq()
                if sim.switches != sw0:
                    inside[0] += 1
                bump(st, "req.sync")
                bump(st, "req.via." + via)
                history.append([op["uid"], inv, ret, via, name, ns, got[:2]])
                cands = self._candidates(sc, name, ns)
                if got[0] == "err":
                    if got[1] != "TemplateNotFoundError":
                        if (got[1] in ("FileNotFoundError", "OSError")
                                and any(c[0] == "fs" and w.store.dead_sometime(c, inv, ret)
                                        and w.store.alive_during(c, inv, ret) for c in cands)):
                            # a delete landed between resolve and read of this very request: the
                            # non-caching loader has the same check-then-open race (counted)
                            bump(st, "relaxed.delete_raced_request")
                            return
                        add("errors", "errors:%s:thread:%s:%s" % (got[1], "tag" if via.startswith("tag:") else "direct",
                                                                   sc["loader"]), {"op": op, "raised": got[1:]})
                        return
                    if all(w.store.dead_sometime(c, inv if _strict(c) else first_req[ck], ret) for c in cands):
                        return
                    add("errors", "errors:spurious-notfound:thread", {"op": op, "candidates": cands})
                    return
                m = TOKEN_RE.search(got[1] if isinstance(got[1], str) else "")
                if not m:
                    add("integrity", "integrity:no-token", {"op": op, "got": _brief(got)})
                    return
                oid = (m.group(1), m.group(2), m.group(3))
                ver = int(m.group(4))
                if oid not in cands:
                    kindv = "wrong-namespace" if any(oid[2] == c[2] and oid[0] == c[0] for c in cands) else (
                        "decoy" if oid[0] == "decoy" else "wrong-name")
                    add("integrity", "integrity:%s:thread:%s" % (kindv, "tag" if via.startswith("tag:") else via),
                        {"op": op, "resolved_to": oid, "expected": cands})
                    return
                lo = inv if _strict(oid) else first_req[ck]
                alive = w.store.alive_during(oid, lo, ret)
                ticks = {v["tick"] for v in alive}
                acc = {v["k"] for v in alive}
                if oid[0] == "fs":
                    vs = w.store.versions(oid)
                    acc |= {v["k"] for v in vs if v["tick"] in ticks and v["born"] <= ret}
                    # Under threads a load can be pre-empted between its stat() and its read(): the text of
                    # version k is then paired with the mtime of an EARLIER version j.  That heals itself at
                    # the next request - unless the file's mtime later returns to exactly that value (an edit
                    # that moves the mtime backwards), which no mtime comparison can tell apart.  So version k
                    # is acceptable if some version j <= k carries the mtime of a currently acceptable one.
                    acc |= {v["k"] for v in vs if v["born"] <= ret and any(u["tick"] in ticks for u in vs[:v["k"] + 1])}
                if ver not in acc:
                    add("freshness", "freshness:stale:%s:thread:%s" % (oid[0], "strict" if _strict(oid) else "relaxed"),
                        {"op": op, "got_version": ver, "acceptable": sorted(acc), "window": [lo, ret]})
                    return
                for c in cands[:cands.index(oid)]:
                    if not w.store.dead_sometime(c, first_req[ck], ret):
                        add("priority", "priority:lower-delegate:thread", {"op": op, "answered_from": oid,
                                                                            "shadowed_by": c})
                        return

            def _strict(ident):
                return bool(sc["auto_reload"] and (ident[0] == "fs" or (ident[0] == "sim" and sc["uptodate"] != "none")))

            def client(c):
                def body():
                    for op in c["ops"]:
                        sim.point("op")
                        if viol:
                            return
                        k = op["op"]
                        if k == "edit":
                            self._apply_put(sc, w, op["ident"], op["mtime"])
                        elif k == "delete":
                            self._apply_delete(sc, w, op["ident"])
                        elif k == "req":
                            do_req(op)
                return body
            for c in sc["clients"]:
                if c["ops"]:
                    sim.spawn("c%d" % c["id"], client(c))
            if sim.threads:
                sim.run()
            SimLock.sim = None
            herr = [t for t in sim.threads if t.error is not None]
            if herr:
                raise RuntimeError("client thread harness error") from herr[0].error
            if sim.aborted == "STEP-CAP":
                raise RuntimeError("HARNESS-TIMEOUT: step cap reached in SimThreads")
            if sim.aborted == "DEADLOCK":
                add("liveness", "liveness:deadlock:thread", {"trace_tail": sim.trace[-20:]})
            else:
                try:
                    n, items = len(cache), list(cache.items())
                except Exception as e:  # noqa: BLE001
                    add("cache", "cache:listing-raised:%s" % type(e).__name__, {"where": "end"})
                    n, items = 0, []
                if n > cap:
                    add("cache", "cache:over-capacity", {"len": n, "capacity": cap, "where": "end of thread run"})
                for k, t in items:
                    m = TOKEN_RE.search(str(t)) if isinstance(t, BoundTemplate) else None
                    if not m:
                        add("cache", "cache:bad-entry", {"key": k, "value": repr(t)[:80]})
                        continue
                    ns, name = "", k
                    if sc["ns_key"]:
                        for u in map(nss, NAMESPACES):
                            if k.startswith(u + "/"):
                                ns, name = u, k[len(u) + 1:]
                    if (m.group(1), m.group(2), m.group(3)) not in self._candidates(sc, name, ns or None):
                        add("cache", "cache:foreign-entry", {"key": k, "holds": m.group(1, 2, 3)})
        finally:
            lru_mod.Lock = saved_lock
            SimLock.sim = None
            try:
                restore_locks(undo_locks)
            except NameError:
                pass
        bump(st, "runs.threads")
        bump(st, "runs.loader." + sc["loader"])
        bump(st, "thread.switches", sim.switches)
        bump(st, "reach.thread_switch_inside_request", inside[0])
        bump(st, "reach.thread_lock_contended", sim.contended)
        res["steps"] = sim.steps
        res["isig"] = digest(sim.trace)
        res["digest"] = digest((history, sim.trace))
        res["nontrivial"] = bool(inside[0])

    # -- minimisation ------------------------------------------------------------
    def shrink(self, sc):
        cl = sc["clients"]
        for i in range(len(cl)):
            if len(cl) > 1:
                yield {**sc, "clients": cl[:i] + cl[i + 1:]}
        for i, c in enumerate(cl):
            for cand in shrink_list(c["ops"]):
                yield {**sc, "clients": cl[:i] + [{**c, "ops": cand}] + cl[i + 1:]}
        # merge everything into one client (sequential history) keeping order by uid
        if len(cl) > 1:
            ops = sorted((op for c in cl for op in c["ops"]), key=lambda o: o["uid"])
            yield {**sc, "clients": [{"id": 0, "ops": ops}]}
        for cand in shrink_list(sc["initial"]):
            yield {**sc, "initial": cand}
        if sc["lat"]["stall_p"]:
            yield {**sc, "lat": {**sc["lat"], "stall_p": 0.0}}
        if sc["lat"]["zero_p"] != 1.0:
            yield {**sc, "lat": {**sc["lat"], "zero_p": 1.0}}
        if sc["thread_safe"]:
            yield {**sc, "thread_safe": False}
        if sc.get("factory"):
            yield {**sc, "factory": False}
        if sc.get("caching_delegates"):
            yield {**sc, "caching_delegates": False}
        if sc.get("fs_links"):
            yield {**sc, "fs_links": False}
        if sc.get("segments", 1) > 1:
            yield {**sc, "segments": 1}
        if sc["env_globals"]:
            yield {**sc, "env_globals": {}}
        if sc["ext"]:
            yield {**sc, "ext": None}
        if sc["capacity"] < 4:
            yield {**sc, "capacity": 4}
        if len(sc["names"]) > 1:
            used = {op.get("name") for c in cl for op in c["ops"]} | {
                op["ident"][2] for c in cl for op in c["ops"] if "ident" in op}
            keep = [n for n in sc["names"] if n in used]
            if keep and len(keep) < len(sc["names"]):
                yield {**sc, "names": keep, "realms": {n: sc["realms"][n] for n in keep},
                       "initial": [i for i in sc["initial"] if i[2] in keep]}
        for i, c in enumerate(cl):  # simplify single ops
            for j, op in enumerate(c["ops"]):
                for simpler in _simpler_op(op):
                    ops = c["ops"][:j] + [simpler] + c["ops"][j + 1:]
                    yield {**sc, "clients": cl[:i] + [{**c, "ops": ops}] + cl[i + 1:]}


def _simpler_op(op):
    if op["op"] != "req":
        if op["op"] == "edit" and op["mtime"] != "next":
            yield {**op, "mtime": "next"}
        return
    if op.get("cancel_after") is not None:
        yield {k: v for k, v in op.items() if k != "cancel_after"}
    if op["via"] != "kw":
        yield {k: v for k, v in {**op, "via": "kw"}.items() if k != "ctx_ns"}
    if op["globals"]:
        yield {**op, "globals": None}
    if op["mode"] == "async":
        yield {**op, "mode": "sync"}


def _brief(o):
    s = repr(o)
    return s if len(s) < 700 else s[:700] + "..."


def _strip_ver(o, tagreq):
    """Outcome with version numbers blanked (to compare everything but the version)."""
    if o[0] != "ok":
        return o
    if tagreq:
        return ("ok", TOKEN_RE.sub(lambda m: "[%s|%s|%s|_]" % m.group(1, 2, 3), o[1]))
    d = dict(o[1])
    d["src"] = TOKEN_RE.sub(lambda m: "[%s|%s|%s|_]" % m.group(1, 2, 3), d.get("src", ""))
    out = list(d.get("out", []))
    if len(out) > 1 and isinstance(out[1], str):
        out[1] = TOKEN_RE.sub(lambda m: "[%s|%s|%s|_]" % m.group(1, 2, 3), out[1])
    d["out"] = out
    return ("ok", d)


def _diff(got, want, tagreq):
    if tagreq or got[0] != "ok" or want[0] != "ok":
        return ["output"]
    g, wv = _strip_ver(got, False)[1], _strip_ver(want, False)[1]
    return sorted(k for k in set(g) | set(wv) if g.get(k) != wv.get(k))


if __name__ == "__main__":
    sys.exit(driver.main(C23()))

"""The checks registered in MANIFEST.json (tools/gen_manifest.py reads this)."""


def _c(pid, text, note, technique, ref):
    return {
        "property_id": pid,
        "quick_cmd": f"./check {pid} --tier quick",
        "thorough_cmd": f"./check {pid} --tier thorough",
        "evidence_file": f"evidence/{pid}.json",
        "replay_cmd_template": f"./check {pid} --replay {{path}}",
        "engine": "simkit",
        "level_claimed": {"category": "exploration", "text": text, "design_ref": ref},
        "level_note": note,
        "technique": technique,
    }


CHECKS = [
    _c("C24",
       "Seeded search over operation histories and thread schedules: sequential histories are compared "
       "op-by-op with an executable LRU model; concurrent workloads of 2-16 real threads run one at a time "
       "under a seeded baton scheduler that may pre-empt at every line - in half of the runs every bytecode "
       "instruction - of lru_cache.py, at every lock operation, every next() of a listing and inside the Python-level "
       "__hash__/__eq__ of some key styles; clients also use the cache while one of their own listings is open, "
       "abandon listings half way, use equal-but-distinct key objects and store values whose finalizer looks at the "
       "cache; never-fails, capacity, deadlock and linearizability oracles. "
       "A clean batch is evidence over the sampled schedules, not proof.",
       "Trusts CPython's OrderedDict C operations to be atomic under the GIL; pre-emption inside lru_cache.py "
       "happens at instruction or line boundaries and at lock operations, never inside a C call; the scheduler, "
       "the lock class and the reference model are the checker's.",
       "deterministic simulation: seeded baton-passing thread scheduler + linearizability check against ModelLRU",
       "DESIGN.md section 4, C24"),
    _c("C23",
       "Seeded search over request histories x task schedules x faults: 1-5 concurrent clients on a virtual-time "
       "event loop issue sync and async requests (namespace by keyword, render context or include/render tag) "
       "against the four caching loaders while sources are edited (mtime forward / unchanged / backward), "
       "deleted and recreated; every returned template is compared, in the loop step in which it returns, with "
       "what the corresponding non-caching loader returns for the same request over the same store (refinement), "
       "with an interval-based freshness rule, a delegate-priority rule for names living in several delegates of a "
       "choice loader, cache well-formedness after every step, a separate fault configuration (store errors, errno "
       "faults, cancellation), two successive event loops over one loader, and a thread configuration (synchronous "
       "requests, edits and deletes from 1-5 baton threads on thread-safe compositions of the caching mixin, "
       "pre-empted inside the loader modules). "
       "A clean batch is evidence, not proof.",
       "Trusts asyncio's Task/Future semantics and FIFO ready queue; executor jobs are atomic at a seeded virtual "
       "time; freshness is only demanded where the source supplies an uptodate callable; under threads request globals "
       "are not judged (the cached template object is shared by design) and only the mixin composed with "
       "thread_safe=True is driven (the built-in Caching* classes use the plain map).",
       "deterministic simulation: virtual-time asyncio loop + seeded executor/latency/cancellation + simulated storage + baton-passed threads; refinement against the non-caching loader",
       "DESIGN.md section 4, C23"),
    _c("C22",
       "Seeded search over template names x sandbox trees x loader variants x schedules: every request through "
       "FileSystemLoader, CachingFileSystemLoader and PackageLoader (sync, concurrent async tasks with seeded "
       "executor completion, direct and via include/render) is judged against an independent string-level "
       "resolver over a simulator-owned tmpfs tree whose every file carries a unique inside/outside token; a "
       "separate fault configuration injects errno faults and content edits at the k-th storage call of a request "
       "and only relaxes 'may fail', never 'may return outside or wrong data'; sequential histories and phased "
       "concurrent histories mutate the tree between requests (files and directories swapped for links that leave "
       "the root, shadowing, deletion, ENOTDIR / ELOOP, older and newer mtimes), cancel requests in flight and move to a "
       "second event loop, each request being judged against the tree as it is at that moment; loaders are also "
       "built by the factory functions and composed behind choice loaders. Evidence over sampled names and trees, "
       "not proof.",
       "POSIX semantics on tmpfs; directory-backed packages only; the tree changes only while no request is in "
       "flight (check-then-open races against a concurrently mutated tree are outside the stated quantifier); "
       "the model resolver mirrors pathlib's documented suffix rule for 'ext'.",
       "deterministic simulation: simulator-owned storage with errno/edit fault plan + virtual-time asyncio loop; oracle = independent path resolver over unique content tokens",
       "DESIGN.md section 4, C22"),
    _c("C01",
       "Seeded search over scenario x schedule x latency: two environments built from one recipe, the synchronous "
       "one being the executable reference model; 1-6 concurrent tasks on a virtual-time loop drive every *_async "
       "entry point (render, get_template, analyze and its helpers, analyze_tags, Environment/convenience render) "
       "through dict/choice/file-system/package/custom loaders and their caching variants while loaders, executor "
       "jobs and async drops suspend for seeded durations and several tasks share one template object; each "
       "result is compared with the synchronous result of the same operation when it returns; some callers cancel "
       "their operation, some backing stores fail for some names (both APIs alike), some runs continue in a second event "
       "loop or edit sources between two halves of a sequential history, and the synchronous API is also called on the "
       "environment that suspended asynchronous tasks are using. A sys.setprofile "
       "probe reports which of liquid's async defs were entered. Evidence over sampled scenarios, not proof.",
       "Exceptions compare by class; the sync API is trusted as the reference (a defect mirrored in both twins is "
       "invisible); sources change only between the two phases of a run, with nothing in flight; memory addresses and "
       "the sandbox directory name are blanked.",
       "deterministic simulation: virtual-time asyncio loop with seeded loader/executor/drop latency; refinement of the async API against the sync API",
       "DESIGN.md section 4, C01"),
    _c("C17",
       "Seeded search over histories x schedules x clock: EVERY render of a history (sync, concurrent render_async "
       "with suspensions, implicit environment; after rejected parses, aborted and cancelled renders, clock jumps) "
       "is compared with the outcome of the same (recipe, sources, data, simulated clock value) evaluated alone and "
       "in another order in the worker's companion process - whose own history is different - and, for a sample, in "
       "a pristine fork, a fresh process with no history at all; so module-level memoisation, state kept on nodes, "
       "templates, parsers or environments, and leakage from aborted or cancelled operations all show as a "
       "difference; deep type-tagged fingerprints check that data, parsed templates and environments are unchanged "
       "by a render. Evidence over sampled histories, not proof.",
       "The pristine state is 'fresh interpreter after import liquid'; exceptions compare by class; sources are static "
       "(reloads are carved out by the statement); interleaving at await granularity only; the pristine fork is used for "
       "a 15 % sample because forks are serialised system-wide in this sandbox.",
       "deterministic simulation: history machine on a virtual-time loop with simulated wall clock, cancellation and failing drops; oracle = companion process with a different history + pristine-fork reference + deep fingerprints",
       "DESIGN.md section 4, C17"),
    _c("C11",
       "Seeded search over histories of a process: environments with generated delimiter sets (lengths 1-4 over "
       "punctuation, letters and regex metacharacters, disjoint from the template content, pairwise non-colliding) - "
       "many sharing delimiters and mode but differing in tags, filters, flags and later mutations - are created, "
       "used, mutated, dropped, abandoned half-constructed and flooded past the 128-entry memo caches in interleaved "
       "order - sequentially, from 2-3 baton threads pre-empted inside the lexer / parser / environment modules, and "
       "as concurrent asyncio tasks of several environments on a virtual-time loop; every parse/render is compared "
       "(a) with the outcome in a freshly built environment in the companion process (another history) and, for a "
       "sample, in a pristine fork where no other environment ever existed, and (b) with the default-delimiter "
       "rewriting of the same tree in an equally configured environment; a template of one environment embedded in "
       "another's render must behave as on its own. Evidence over sampled histories, not proof.",
       "No clock or I/O is involved; the explored dimensions are order, thread and task schedule, liveness of "
       "configurations, failed constructions and memo roll-over. Raw blocks hold plain text; the liquid tag's "
       "line-comment marker follows comment_start_string as documented.",
       "deterministic simulation: seeded operation histories over live configurations (sequential, baton threads, asyncio tasks; construction faults) with a companion process and a pristine-fork reference process as oracle",
       "DESIGN.md section 4, C11"),
]

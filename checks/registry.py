"""The checks registered in MANIFEST.json (tools/gen_manifest.py reads this)."""


def _c(pid, text, note, technique, ref):
    return {
        "property_id": pid,
        "quick_cmd": f"./check {pid} --tier quick",
        "thorough_cmd": f"./check {pid} --tier thorough",
        "evidence_file": f"evidence/{pid}.json",
        "replay_cmd_template": f"./check {pid} --replay {{path}}",
        "engine": "simkit",
        "level_claimed": {"category": "exploration", "text": text, "design_ref": ref},
        "level_note": note,
        "technique": technique,
    }


CHECKS = [
    _c("C24",
       "Seeded search over operation histories and thread schedules: sequential histories are compared "
       "op-by-op with an executable LRU model; concurrent workloads of 2-16 real threads run one at a time "
       "under a seeded baton scheduler that may pre-empt at every line of lru_cache.py, every lock operation "
       "and every next() of a listing, with never-fails, capacity, deadlock and linearizability oracles. "
       "A clean batch is evidence over the sampled schedules, not proof.",
       "Trusts CPython's OrderedDict C operations to be atomic under the GIL, and that pre-emption inside "
       "lru_cache.py happens only at line boundaries and lock operations; the scheduler, the lock class and "
       "the reference model are the checker's.",
       "deterministic simulation: seeded baton-passing thread scheduler + linearizability check against ModelLRU",
       "DESIGN.md section 4, C24"),
]

"""The checks registered in MANIFEST.json (tools/gen_manifest.py reads this)."""


def _c(pid, text, note, technique, ref):
    return {
        "property_id": pid,
        "quick_cmd": f"./check {pid} --tier quick",
        "thorough_cmd": f"./check {pid} --tier thorough",
        "evidence_file": f"evidence/{pid}.json",
        "replay_cmd_template": f"./check {pid} --replay {{path}}",
        "engine": "simkit",
        "level_claimed": {"category": "exploration", "text": text, "design_ref": ref},
        "level_note": note,
        "technique": technique,
    }


CHECKS = [
    _c("C24",
       "Seeded search over operation histories and thread schedules: sequential histories are compared "
       "op-by-op with an executable LRU model; concurrent workloads of 2-16 real threads run one at a time "
       "under a seeded baton scheduler that may pre-empt at every line of lru_cache.py, every lock operation "
       "and every next() of a listing, with never-fails, capacity, deadlock and linearizability oracles. "
       "A clean batch is evidence over the sampled schedules, not proof.",
       "Trusts CPython's OrderedDict C operations to be atomic under the GIL, and that pre-emption inside "
       "lru_cache.py happens only at line boundaries and lock operations; the scheduler, the lock class and "
       "the reference model are the checker's.",
       "deterministic simulation: seeded baton-passing thread scheduler + linearizability check against ModelLRU",
       "DESIGN.md section 4, C24"),
    _c("C23",
       "Seeded search over request histories x task schedules x faults: 1-5 concurrent clients on a virtual-time "
       "event loop issue sync and async requests (namespace by keyword, render context or include/render tag) "
       "against the four caching loaders while sources are edited (mtime forward / unchanged / backward), "
       "deleted and recreated; every returned template is compared, in the loop step in which it returns, with "
       "what the corresponding non-caching loader returns for the same request over the same store (refinement), "
       "with an interval-based freshness rule, cache well-formedness after every step, and a separate fault "
       "configuration (store errors, errno faults, cancellation). A clean batch is evidence, not proof.",
       "Trusts asyncio's Task/Future semantics and FIFO ready queue; executor jobs are atomic at a seeded virtual "
       "time; freshness is only demanded where the source supplies an uptodate callable; thread-level concurrency "
       "on the template cache is not simulated here (the map's own thread safety is C24).",
       "deterministic simulation: virtual-time asyncio loop + seeded executor/latency/cancellation + simulated storage; refinement against the non-caching loader",
       "DESIGN.md section 4, C23"),
    _c("C22",
       "Seeded search over template names x sandbox trees x loader variants x schedules: every request through "
       "FileSystemLoader, CachingFileSystemLoader and PackageLoader (sync, concurrent async tasks with seeded "
       "executor completion, direct and via include/render) is judged against an independent string-level "
       "resolver over a simulator-owned tmpfs tree whose every file carries a unique inside/outside token; a "
       "separate fault configuration injects errno faults and content edits at the k-th storage call of a request "
       "and only relaxes 'may fail', never 'may return outside or wrong data'. Evidence over sampled names and "
       "trees, not proof.",
       "POSIX semantics on tmpfs; directory-backed packages only; the tree is static in the fault-free "
       "configuration (check-then-open races against a concurrently mutated tree are outside the stated quantifier); "
       "the model resolver mirrors pathlib's documented suffix rule for 'ext'.",
       "deterministic simulation: simulator-owned storage with errno/edit fault plan + virtual-time asyncio loop; oracle = independent path resolver over unique content tokens",
       "DESIGN.md section 4, C22"),
    _c("C01",
       "Seeded search over scenario x schedule x latency: two environments built from one recipe, the synchronous "
       "one being the executable reference model; 1-6 concurrent tasks on a virtual-time loop drive every *_async "
       "entry point (render, get_template, analyze and its helpers, analyze_tags, Environment/convenience render) "
       "through dict/choice/file-system/package/custom loaders and their caching variants while loaders, executor "
       "jobs and async drops suspend for seeded durations and several tasks share one template object; each "
       "result is compared with the synchronous result of the same operation when it returns. A sys.setprofile "
       "probe reports which of liquid's async defs were entered. Evidence over sampled scenarios, not proof.",
       "Exceptions compare by class; the sync API is trusted as the reference (a defect mirrored in both twins is "
       "invisible); sources are static within a run; memory addresses and the sandbox directory name are blanked.",
       "deterministic simulation: virtual-time asyncio loop with seeded loader/executor/drop latency; refinement of the async API against the sync API",
       "DESIGN.md section 4, C01"),
    _c("C17",
       "Seeded search over histories x schedules x clock: every history runs in a fork of a worker that never "
       "renders anything, and EVERY render in it (sync, concurrent render_async with suspensions, implicit "
       "environment) is compared with the outcome of the same (recipe, sources, data, simulated clock value) in a "
       "pristine fork - a fresh process with no history - so module-level memoisation, state kept on nodes, "
       "templates or environments, and leakage from aborted or cancelled renders all show as a difference; deep "
       "type-tagged fingerprints check that data, parsed templates and environments are unchanged by a render. "
       "Evidence over sampled histories, not proof.",
       "The pristine state is 'fresh interpreter after import liquid'; exceptions compare by class; sources are static "
       "(reloads are carved out by the statement); interleaving at await granularity only; reference forks are "
       "serialised system-wide in this sandbox (~70/s), which bounds the number of histories per minute.",
       "deterministic simulation: history machine on a virtual-time loop with simulated wall clock, cancellation and failing drops; oracle = pristine-fork reference process + deep fingerprints",
       "DESIGN.md section 4, C17"),
    _c("C11",
       "Seeded search over histories of a process: environments with generated delimiter sets (lengths 1-4 over "
       "punctuation, letters and regex metacharacters, disjoint from the template content, pairwise non-colliding) - "
       "many sharing delimiters and mode but differing in tags, filters, flags and later mutations - are created, "
       "used, mutated, dropped and flooded past the 128-entry memo caches in interleaved order; every parse/render "
       "runs in a fork of a worker that never parsed anything and is compared (a) with the outcome in a pristine "
       "fork where no other environment ever existed and (b) with the default-delimiter rewriting of the same tree "
       "in an equally configured environment. Evidence over sampled histories, not proof.",
       "No clock, I/O or scheduler is involved; the explored dimensions are order, liveness of configurations and memo "
       "roll-over. Raw blocks hold plain text; the liquid tag's line-comment marker follows comment_start_string as "
       "documented. Reference forks are serialised system-wide in this sandbox (~35-70/s).",
       "deterministic simulation (history machine, no fault kinds apply): seeded operation histories over live configurations with a pristine-fork reference process as oracle",
       "DESIGN.md section 4, C11"),
]

"""C11 - Custom delimiters and environments are independent.

A history machine creates environments with generated delimiter sets (lengths
1-4 over punctuation, letters and regex metacharacters, drawn from characters
the template does NOT use, pairwise non-colliding), parses the same canonical
template tree rewritten in each environment's delimiters, renders, mutates
environments (add_filter / add_tag / mode), drops them, uses the implicit
environment of ``liquid.Template`` and floods the process with 129-300
throw-away environments to roll the memo caches - in seeded interleaved order,
with many environments sharing delimiters and mode (equal ``__hash__``) while
differing in tags, filters and flags.

Every history runs in a fork of a worker that never parses anything.  Oracles,
both answered by ONE pristine-fork reference per probe (a fresh process in
which no other environment ever existed):
 (a) independence        - outcome in the history == outcome in the pristine fork;
 (b) delimiter equivalence - pristine outcome under the custom delimiters ==
     pristine outcome of the canonical default-delimiter rewriting in an
     environment with the same tags / filters / flags.
"""
from __future__ import annotations

import asyncio
import gc
import os
import re
import sys
import threading
import warnings

sys.path.insert(0, os.path.dirname(os.path.dirname(os.path.abspath(__file__))))

from simkit import clock, driver, fork  # noqa: E402
from simkit.driver import bump, new_result, shrink_list  # noqa: E402
from simkit.fs import SimFS  # noqa: E402
from simkit.loop import SimDeadlock, SimLoop  # noqa: E402
from simkit.rng import Rng, digest  # noqa: E402
from simkit.threads import SimThreads  # noqa: E402
from workload import gen as G  # noqa: E402
from workload.runtime import build_data, outcome, outcome_async  # noqa: E402

import liquid  # noqa: E402
from liquid import DictLoader, Environment, Mode  # noqa: E402
from liquid.ast import Node  # noqa: E402
from liquid.tag import Tag  # noqa: E402
from liquid.token import TOKEN_TAG  # noqa: E402

CLOCK = clock.install()
ADDR_RE = re.compile(r" at 0x[0-9a-fA-F]+")
PLACE = {"ts": "\ue000", "te": "\ue001", "os": "\ue002", "oe": "\ue003", "cs": "\ue004", "ce": "\ue005"}
CANDIDATES = list("{}%#@$^&*+~;\\/?!<>=|()[].:,`") + list("ABCDEFGHJKLMNPQRSTUVWXYZ") + list("qjzwv")
SAFE_TEXTS = ["", " ", "\n", "text ", "a b", "  x  ", "é", "12", "\n\n  ", "p ", " /p\n"]
MODES = {"strict": Mode.STRICT, "warn": Mode.WARN, "lax": Mode.LAX}


COPIED_FILTERS = ["join", "escape", "escape_once", "strip_html", "newline_to_br", "replace", "append", "prepend",
                  "safe", "default", "truncate", "capitalize"]


def make_mark_tag(label):
    class MarkNode(Node):
        def __init__(self, token):
            super().__init__(token)
            self.blank = False

        def __str__(self):
            return "{% marktag %}"

        def render_to_output(self, context, buffer):
            return buffer.write("<T:%s>" % label)

    class MarkTag(Tag):
        name = "marktag"
        block = False
        node_class = MarkNode

        def parse(self, stream):
            return MarkNode(stream.eat(TOKEN_TAG))
    return MarkTag


LOOP_REF = [None]    # the SimLoop of the async batch in progress (None: loaders do not suspend)


class LatencyDictLoader(DictLoader):
    """DictLoader whose asynchronous path suspends for a seeded latency while a SimLoop runs."""

    async def get_source_async(self, env, template_name, *, context=None, **kwargs):
        loop = LOOP_REF[0]
        if loop is not None:
            await loop.latency("dictloader")
        return self.get_source(env, template_name, context=context, **kwargs)


class EnvAwareLoader(liquid.loader.BaseLoader):
    """ONE loader object shared by several environments that serves every environment its own
    sources (get_source receives the environment): templates stored once, delivered in the syntax
    of whoever asks.  The asynchronous path suspends for a seeded latency."""

    def __init__(self):
        super().__init__()
        self.by_env = {}

    def register(self, env, sources):
        self.by_env[id(env)] = (env, dict(sources))

    def get_source(self, env, template_name, *, context=None, **kwargs):
        try:
            return liquid.loader.TemplateSource(self.by_env[id(env)][1][template_name], template_name, None)
        except KeyError:
            raise liquid.exceptions.TemplateNotFoundError(template_name) from None

    async def get_source_async(self, env, template_name, *, context=None, **kwargs):
        loop = LOOP_REF[0]
        if loop is not None:
            await loop.latency("envaware")
        return self.get_source(env, template_name, context=context, **kwargs)


class ConstructionFault(Exception):
    pass


def dying(fail_at):
    """Class decorator: an Environment whose k-th add_tag raises (user code failing in the middle
    of construction; the half-built environment is abandoned)."""
    def wrap(cls):
        count = [0]

        def add_tag(self, tag):
            count[0] += 1
            if count[0] >= fail_at:
                raise ConstructionFault("add_tag #%d failed" % count[0])
            return cls.add_tag(self, tag)
        return type("Dying" + cls.__name__, (cls,), {"add_tag": add_tag})
    return wrap


def guest_tree(spec):
    """A template that shows which environment evaluates it: that environment's custom filter and
    tag labels, its (possibly overridden) upcase and its liquid-tag comment marker."""
    nodes = [["text", "G("]]
    if spec["custom"].get("filter"):
        nodes.append(["out", "'v' | mark", ""])
    nodes.append(["out", "'w' | upcase", ""])
    if spec["custom"].get("tag"):
        nodes.append(["tag", "marktag", "", ""])
    nodes.append(["liquid", [["tag", "#", "note", ""], ["tag", "echo", "'z' | upcase", ""]]])
    nodes.append(["text", ")"])
    return nodes


def fresh_shared_style_loader(mode, sources, keep):
    """A loader of the kind the run shares between its environments, built afresh (nothing shared)."""
    if mode == "shared_envaware":
        return EnvAwareLoader()
    if mode == "shared_choice":
        # a plain (non-caching) choice loader only moves source text, so ONE instance may serve several
        # environments - even when its delegates are caching loaders, whose caches it never consults
        return liquid.ChoiceLoader([liquid.CachingDictLoader(dict(sources)), LatencyDictLoader(dict(sources))])
    fs = SimFS()
    keep.append(fs)
    for nm, src in sources.items():
        fs.write("tpl/" + nm, src, 1)
    fs.mkdir("tpl")
    # every environment calls the documented factory itself, with equal arguments
    return liquid.make_file_system_loader(fs.path("tpl"), ext="")


def build_env_c11(spec, delims, loader_sources, loader=None, keep=None):
    """Environment for a C11 recipe incl. the mutations applied so far."""
    if loader is None and spec.get("loader_mode"):
        loader = fresh_shared_style_loader(spec["loader_mode"], spec["shared_sources"], keep if keep is not None else [])
    env = G.build_env(spec["recipe"], loader or LatencyDictLoader(dict(loader_sources)), delims)
    if isinstance(env.loader, EnvAwareLoader):
        env.loader.register(env, loader_sources)
    apply_custom(env, spec["label"], spec["custom"])
    for m in spec["mutations"]:
        apply_mutation(env, spec["label"], m)
    return env


def apply_custom(env, label, custom):
    if custom.get("filter"):
        env.add_filter("mark", lambda v, _l=label: "%s<F:%s>" % (v, _l))
    if custom.get("tag"):
        env.add_tag(make_mark_tag(label))


def apply_mutation(env, label, m):
    if m[0] == "add_filter":
        env.add_filter(m[1], lambda v, _l=label + "'": "%s<F2:%s>" % (v, _l))
    elif m[0] == "add_tag":
        env.add_tag(make_mark_tag(label + "'"))
    elif m[0] == "mode":
        env.mode = MODES[m[1]]
    elif m[0] == "override_filter":
        env.add_filter("upcase", lambda v, _l=label: "%s<UP:%s>" % (v, _l))
    elif m[0] == "instance_flag":
        setattr(env, m[1], m[2])       # a feature flag set on the instance, not the class
    elif m[0] == "redelimit":
        # tag and output delimiters assigned as attributes AFTER construction (a subclass doing so after
        # super().__init__(), or an application adjusting a shared base environment)
        d = m[1]
        env.tag_start_string, env.tag_end_string = d["ts"], d["te"]
        env.statement_start_string, env.statement_end_string = d["os"], d["oe"]
    elif m[0] == "copy_builtin_filters":
        # filters taken from ANOTHER environment's register and added to this one: for the built-in
        # functions that is a no-op, whatever that other environment's autoescape / tolerance are
        donor = G.build_env({**m[1], "autoescape": not m[1]["autoescape"]}, None)
        for name in COPIED_FILTERS:
            if name in donor.filters:
                env.add_filter(name, donor.filters[name])


def tree_for(tree, recipe):
    """The canonical tree as this recipe can express it: without template comments when they are off."""
    if recipe["template_comments"]:
        return tree
    return _strip_tcomments(tree)


def _has_tcomment(nodes):
    for n in nodes:
        if n[0] == "tcomment":
            return True
        if n[0] == "block" and (_has_tcomment(n[3]) or any(_has_tcomment(c[2]) for c in n[4])):
            return True
        if n[0] in ("seq", "liquid") and _has_tcomment(n[1]):
            return True
    return False


def _strip_tcomments(nodes):
    out = []
    for n in nodes:
        if n[0] == "tcomment":
            continue
        if n[0] == "block":
            out.append(["block", n[1], n[2], _strip_tcomments(n[3]), [[c[0], c[1], _strip_tcomments(c[2])] for c in n[4]],
                        n[5], n[6]])
        elif n[0] in ("seq", "liquid"):
            out.append([n[0], _strip_tcomments(n[1])])
        else:
            out.append(n)
    return out


def with_lc(delims, recipe):
    """Delimiter set plus the liquid tag's line-comment marker for this recipe."""
    lc = "#"
    if recipe["template_comments"]:
        lc = delims["cs"].replace("{", "") or "#"
    return {**delims, "lc": lc}


def sources_for(spec, delims):
    d = with_lc(delims, spec["recipe"])
    return {nm: G.render_source(tree_for(t, spec["recipe"]), d) for nm, t in spec["partials"].items()}


def norm(o):
    if isinstance(o, tuple):
        return tuple(norm(x) for x in o)
    if isinstance(o, str) and " at 0x" in o:
        return ADDR_RE.sub("", o)
    return o


def probe_outcome(env, source, data_spec, what):
    def f():
        if what.startswith("load:"):   # a stored template requested by name through the environment's loader
            return env.get_template(what[5:]).render(**build_data(data_spec, None))
        if what == "env_render":      # the convenience entry point: parse and render in one call
            return env.render(source, **build_data(data_spec, None))
        t = env.from_string(source)
        if what == "parse":
            return "parsed:" + str(t)
        return t.render(**build_data(data_spec, None))
    return norm(outcome(f))


def evaluate_probe(probe):
    """In a grandchild of the pristine zygote: no other environment ever existed here."""
    warnings.simplefilter("ignore")
    CLOCK.set(clock.EPOCH_US)
    if probe["kind"] == "variation":
        return _run_variation(probe["probes"])
    if probe["kind"] == "implicit":
        data = build_data(probe["data"], None)
        custom = norm(outcome(lambda: liquid.Template(probe["source"], **probe["kwargs"]).render(**data)))
        canon = norm(outcome(lambda: liquid.Template(probe["canon_source"], **probe["canon_kwargs"]).render(**data)))
        return [custom, canon]
    spec = probe["spec"]
    keep = []
    d0 = spec.get("delims0") or probe["delims"]
    try:
        env = build_env_c11(spec, d0, sources_for(spec, d0), keep=keep)
        custom = probe_outcome(env, probe["source"], probe["data"], probe["what"])
    finally:
        for fs in keep:
            fs.close()
    if spec.get("delims0") and not spec.get("loader_mode"):
        # delimiters assigned after construction == the same delimiters given to the constructor
        # (same partial sources, same other mutations)
        twin = {**spec, "mutations": [m for m in spec["mutations"] if m[0] != "redelimit"]}
        twin.pop("delims0")
        env2 = build_env_c11(twin, probe["delims"], sources_for(spec, d0))
        return [custom, probe_outcome(env2, probe["source"], probe["data"], probe["what"])]
    if probe.get("canon_source") is None:
        return [custom, custom]       # no delimiter-equivalence side for this probe
    cspec = dict(spec)
    env2 = build_env_c11(cspec, G.DEFAULT_DELIMS, sources_for(spec, G.DEFAULT_DELIMS))
    canon = probe_outcome(env2, probe["canon_source"], probe["data"], probe["what"])
    if not probe.get("canon_plain"):
        return [custom, canon]
    # the template uses no shorthand comments: an environment WITHOUT template comments (the
    # "original" of the statement) must give the same output as the one with comment delimiters
    r2 = {**spec["recipe"], "template_comments": False, "comment_delims_always": False}
    pspec = {**spec, "recipe": r2}
    env3 = build_env_c11(pspec, G.DEFAULT_DELIMS, sources_for(pspec, G.DEFAULT_DELIMS))
    return [custom, canon, probe_outcome(env3, probe["canon_source"], probe["data"], probe["what"])]


def _run_variation(probe_list):
    """Probes of a history in the given (reversed) order, each in a freshly built environment."""
    warnings.simplefilter("ignore")
    CLOCK.set(clock.EPOCH_US)
    return [evaluate_probe(p) for p in probe_list]


def used_chars(trees):
    s = set()
    for t in trees:
        s |= set(G.render_source(t, PLACE))
    return s - set(PLACE.values())


def gen_delims(rng, used):
    alpha = [c for c in CANDIDATES if c not in used]
    if len(alpha) < 4:
        return None
    for _ in range(200):
        d = {}
        for k in ("ts", "te", "os", "oe", "cs", "ce"):
            n = rng.weighted([(1, 2), (2, 6), (3, 2), (4, 1)])
            d[k] = "".join(rng.choice(alpha) for _ in range(n))
        # The liquid tag derives its line-comment marker from comment_start_string by dropping '{'
        # characters; WHICH '{' it drops is an undocumented convention, so custom comment starts never
        # contain '{' here (every convention then yields the same marker and the rewriting is unambiguous)
        if "{" in d["cs"]:
            continue
        if delims_ok(list(d.values())):
            return d
    return None


def delims_ok(vals):
    """No delimiter occurs inside another or across the concatenation of two others."""
    if len(set(vals)) < len(vals):
        return False
    for c in vals:
        for a in vals:
            for b in vals + [""]:
                ab = a + b
                idx = ab.find(c)
                while idx != -1:
                    if not ((idx == 0 and c == a) or (idx == len(a) and c == b and b)):
                        return False
                    idx = ab.find(c, idx + 1)
    return True


class C11:
    PROP = "C11"
    LEVEL = "exploration"
    NO_PIN = True   # no baton threads here: let the OS scheduler place the workers
    RUN_S = 240
    TIERS = {
        "quick": {"runs": 40000, "budget_s": 55, "chunk": 8, "determinism_runs": 24, "minimise_s": 40},
        "thorough": {"runs": 2000000, "budget_s": 1200, "chunk": 16, "determinism_runs": 128, "minimise_s": 240},
    }
    RULE = ("Each run is one seeded history over 2-5 environment specs (delimiters of length 1-4 from characters the "
            "templates do not use, pairwise non-colliding; several specs share delimiters and mode but differ in "
            "extra / flags / custom 'mark' filter and tag / mutations) and 1-2 canonical template trees: "
            "new_env, parse, render, mutate, drop+gc, implicit Template(), flood of 129-300 throw-away environments, "
            "in interleaved order. Every parse/render is compared with the pristine-fork outcome (independence) "
            "and that with the default-delimiter rewriting (equivalence). Non-trivial = >=2 live environments of "
            "different specs whose operations interleave; distinct = hash(scenario).")
    STATE_MEASURE = "distinct (spec digest, tree digest, data digest) probe keys sent to the pristine fork"
    COMPONENTS = {
        "real": ["liquid lex.compile_liquid_rules/get_lexer, parser.get_parser, Environment (incl. __hash__, add_tag, "
                 "add_filter, tokenizer), liquid.Template/get_implicit_environment, liquid tag, every tag's parse/render - "
                 "from /repo's working tree", "os.fork reference processes"],
        "stub": ["nothing of liquid is stubbed; the simulator owns the order of operations, the set of live "
                 "configurations and memo-cache pressure (flood), and supplies the pristine reference process"],
    }
    ASSUMPTIONS = [
        "delimiter characters are disjoint from every character of the template content and no delimiter occurs inside "
        "or across the concatenation of two others (the statement's non-collision premise, made constructive)",
        "raw blocks hold plain text only (a raw block that prints delimiter characters is not delimiter-independent by design)",
        "no I/O, clock or scheduler is involved in this property: the explored dimension is order, liveness of many "
        "configurations and memo roll-over; no fault kind applies",
    ]
    REQUIRED_REACH = ["reach.order_variation_compared", "reach.pristine_compared", "reach.equal_hash_envs_alive", "reach.flood_rolled_parser_cache", "reach.parse_after_mutation",
                      "reach.interleaved_envs", "reach.implicit", "reach.custom_delims", "reach.dropped_env",
                      "reach.regex_meta_delims", "reach.letter_delims", "reach.thread_switch_inside_op",
                      "reach.async_batch", "reach.embedded_guest", "fault.env_construction_failed",
                      "reach.cross_parse", "reach.shared_loader", "reach.factory_loader_equal_args",
                      "reach.default_environment_customised", "reach.flood_rolled_lexer_cache"]

    def process_init(self):
        fork.init_zygote(evaluate_probe)
        fork.init_companion(evaluate_probe)

    def trial_init(self):
        fork.init_companion(evaluate_probe)

    # -- generation ------------------------------------------------------------
    def gen(self, run_seed, tier):
        rng = Rng(run_seed, ("gen",))
        base = G.gen_recipe(rng)
        base["template_comments"] = rng.chance(0.5)
        base["limits"] = {"loop_iteration_limit": None, "output_stream_limit": None, "local_namespace_limit": None,
                          "context_depth_limit": 30}
        pnames = ["p", "q"][: rng.randint(0, 2)]
        flags_all = dict(base["flags"])

        def tree(budget, partials):
            tg = G.TreeGen(rng, flags_all, base["extra"], partials=partials, template_comments=base["template_comments"],
                           budget=budget, max_depth=2, stateful_bias=1.0)
            tg_texts = SAFE_TEXTS
            G_TEXTS_saved = G.TEXTS
            G.TEXTS = tg_texts
            try:
                t = tg.template()
            finally:
                G.TEXTS = G_TEXTS_saved
            return _plain_raw(t)
        partials = {nm: tree(rng.randint(2, 5), []) for nm in pnames}
        trees = [tree(rng.randint(4, 16), pnames) for _ in range(rng.randint(1, 2))]
        if rng.chance(0.75):
            trees[0] = trees[0] + [["out", "x | mark", ""], ["tag", "marktag", "", ""], ["out", "s | upcase", ""]]
        if rng.chance(0.4):
            # a {% liquid %} tag with a line comment: its marker follows comment_start_string
            t = rng.randrange(len(trees))
            trees[t] = trees[t] + [["liquid", [["tag", "#", "note", ""], ["tag", "echo", "x", ""], ["tag", "#", "", ""],
                                               ["tag", "echo", "'z'", ""]]]]
        # every character the run writes between delimiters must stay out of the delimiter alphabet:
        # the trees, the partials, and the fixed texts of the embedding operation (host brackets, guest body)
        used = used_chars(trees + list(partials.values()) + [guest_tree({"custom": {"filter": True, "tag": True}})]) \
            | set("[]")
        specs = []
        delim_sets = []
        for _ in range(rng.randint(1, 3)):
            d = gen_delims(rng, used) if rng.chance(0.85) else dict(G.DEFAULT_DELIMS)
            delim_sets.append(d or dict(G.DEFAULT_DELIMS))
        # environments that agree on tag/output delimiters and differ ONLY in comment delimiters
        # (one or both): the memo-key collision case for lexers
        for d in list(delim_sets):
            if rng.chance(0.45):
                for _ in range(50):
                    alt = gen_delims(rng, used)
                    if alt is None:
                        break
                    which = rng.choice([("cs", "ce"), ("cs",), ("ce",)])
                    cand = dict(d)
                    for k in which:
                        cand[k] = alt[k]
                    if delims_ok(list(cand.values())):
                        delim_sets.append(cand)
                        break
        for i in range(rng.randint(2, 5)):
            recipe = dict(base)
            if rng.chance(0.35):
                f = rng.choice(G.FLAG_NAMES)
                recipe["flags"] = {**recipe["flags"], f: not recipe["flags"][f]}
            if rng.chance(0.3):
                recipe["mode"] = rng.choice(["strict", "lax", "warn"])
            if rng.chance(0.3):
                recipe["strict_filters"] = not recipe["strict_filters"]
            if rng.chance(0.2):
                recipe["extra"] = not recipe["extra"]
            if rng.chance(0.25):
                recipe["template_comments"] = not recipe["template_comments"]
            if rng.chance(0.3):
                recipe["comment_delims_always"] = not recipe.get("comment_delims_always")
            if rng.chance(0.25):
                recipe["autoescape"] = not recipe["autoescape"]
            specs.append({"label": "E%d" % i, "recipe": recipe, "delims": rng.randrange(len(delim_sets)),
                          "custom": {"filter": rng.chance(0.6), "tag": rng.chance(0.6)}, "partials": partials})
        datas = [G.gen_data(rng) for _ in range(rng.randint(1, 2))]
        ops = []
        uid = 0
        nops = rng.randint(5, 20)
        for _ in range(nops):
            uid += 1
            k = rng.weighted([("new_env", 3), ("parse", 3), ("render", 8), ("mutate", 2), ("drop", 1), ("implicit", 1),
                              ("flood", 0.6), ("async_batch", 1.5), ("failed_env", 0.8), ("embed", 1.2),
                              ("cross_parse", 1.2), ("default_template", 1.0)])
            op = {"op": k, "uid": uid, "spec": rng.randrange(len(specs))}
            if k in ("parse", "render"):
                op["tree"] = rng.randrange(len(trees))
                op["data"] = rng.randrange(len(datas))
                if k == "render" and rng.chance(0.3):
                    op["via_env"] = True
            elif k == "mutate":
                op["m"] = rng.choice([["add_filter", "mark2"], ["add_tag"], ["mode", rng.choice(["strict", "lax", "warn"])],
                                      ["override_filter"], ["add_filter", "mark"],
                                      ["copy_builtin_filters", specs[op["spec"]]["recipe"]],
                                      ["instance_flag", rng.choice(G.FLAG_NAMES), rng.chance(0.5)]])
                if rng.chance(0.2):
                    cur = delim_sets[specs[op["spec"]]["delims"]]
                    other = delim_sets[rng.randrange(len(delim_sets))]
                    newd = {**cur, **{q: other[q] for q in ("ts", "te", "os", "oe")}}
                    if newd != cur and delims_ok(list(newd.values())):
                        op["m"] = ["redelimit", newd]
            elif k == "implicit":
                op["tree"] = rng.randrange(len(trees))
                op["data"] = rng.randrange(len(datas))
            elif k == "flood":
                op["n"] = rng.choice([129, 140, 300])
                op["same_delims"] = rng.chance(0.5)
                if rng.chance(0.4):
                    op["distinct_lexers"] = True    # every throw-away environment has its own delimiters and lexes once
            elif k == "async_batch":
                # several environments render concurrently on one event loop (their partials share names)
                op["items"] = [{"spec": rng.randrange(len(specs)), "tree": rng.randrange(len(trees)),
                                "data": rng.randrange(len(datas)), "uid": uid * 100 + j}
                               for j in range(rng.randint(2, 5))]
                if pnames and rng.chance(0.5):
                    # top-level requests for one stored template by name (no render context involved)
                    nm = rng.choice(pnames)
                    for it in op["items"]:
                        if rng.chance(0.8):
                            it["load"] = nm
                op["lat_seed"] = rng.randrange(1 << 30)
            elif k == "failed_env":
                op["fail_at"] = rng.randint(1, 24)     # the add_tag call of the constructor that raises
            elif k == "embed":
                op["guest"] = rng.randrange(len(specs))
            elif k == "default_template":
                op["tree"] = rng.randrange(len(trees))
                op["data"] = rng.randrange(len(datas))
                op["customise_default"] = rng.chance(0.6)
            elif k == "cross_parse":
                # source text written for environment src_spec, handed to environment spec as it is
                # (identical text seen by two configurations, e.g. differing only in comment markers)
                same = [j for j, s2 in enumerate(specs) if j != op["spec"] and all(
                    delim_sets[s2["delims"]][q] == delim_sets[specs[op["spec"]]["delims"]][q] for q in ("ts", "te", "os", "oe"))]
                op["src_spec"] = rng.choice(same) if same and rng.chance(0.8) else rng.randrange(len(specs))
                op["tree"] = rng.randrange(len(trees))
                op["data"] = rng.randrange(len(datas))
            ops.append(op)
            if k == "mutate" and rng.chance(0.6):
                # render / parse, re-configure the environment, then the SAME text again through the same
                # entry point: nothing remembered from before the change may answer
                prev = [o for o in ops[:-1] if o["op"] in ("render", "parse") and o["spec"] == op["spec"]]
                if prev:
                    uid += 1
                    ops.append({**prev[-1], "uid": uid})
        sc = {"specs": specs, "delim_sets": delim_sets, "trees": trees, "datas": datas, "ops": ops,
              # how the environments of this run get their loader: each its own (None), ONE shared plain
              # choice loader over caching delegates, or each its own call of make_file_system_loader()
              # with equal arguments; the partials then exist once, written in specs[0]'s delimiters
              "loader_mode": rng.weighted([(None, 6), ("shared_choice", 1.5), ("fsfactory", 1.5), ("shared_envaware", 1.5)])}
        if sc["loader_mode"] in ("shared_choice", "fsfactory"):
            # these loaders cache PARSED templates: re-configuring an environment (delimiters, tolerance,
            # tags, flags) cannot - and need not - re-parse what its own loader has cached, while the
            # reference parses everything under the final configuration; the two are not combined
            sc["ops"] = ops = [op for op in ops if op["op"] != "mutate"]
        if rng.chance(0.3):
            # the same operations from 2-3 threads, each with its own environments
            sc.update(threads=rng.randint(2, 3), switch_p=rng.choice([0.02, 0.1, 0.3]),
                      tsched_seed=rng.randrange(1 << 30))
            sc["ops"] = [op for op in ops if op["op"] != "flood"]
        return sc

    # -- execution ---------------------------------------------------------------
    def run(self, sc):
        # (A) the history in a fork of the (history-free) worker; (B) its probes again in a second
        # fork, in REVERSED order, each in a freshly built environment together with its canonical
        # default-delimiter rewriting; (C) a sample of the probes in the pristine fork, where no
        # other environment ever existed.
        # (A) in THIS process (the driver records each worker's history and replays a violation
        # that needs earlier histories with that prelude); (B), (C) in children of the pristine zygote
        res = self._run_here(sc)
        probes = res.pop("probes")
        st = res["stats"]
        viol = res["violations"]
        if viol or not probes:
            return res

        def add(oracle, sig, detail):
            viol.append({"oracle": oracle, "sig": sig, "detail": detail})
        zy = fork.zygote()
        var = fork.companion().ask({"kind": "variation", "probes": [p["probe"] for p in reversed(probes)]})
        bump(st, "variation_batches")
        for p, outs in zip(reversed(probes), var):
            custom, canon = outs[0], outs[1]
            bump(st, "reach.order_variation_compared")
            self._judge(add, p["op"], p["got"], tuple(custom), tuple(canon), p["kind"], p["delims"], "order",
                        tuple(outs[2]) if len(outs) > 2 else None)
            if viol:
                return res
        f0 = zy.forks
        rng = Rng(len(probes) * 7919 + sum(p["uid"] for p in probes), ("pristine-sample",))
        # (C) one probe of some histories in a process where no other environment ever existed
        chosen = [rng.choice(probes)] if rng.chance(0.15) else []
        for p in chosen:
            res["states"].append(int(p["key"][:12], 16))
            outs = zy.ask(p["key"], p["probe"])
            custom, canon = outs[0], outs[1]
            bump(st, "reach.pristine_compared")
            self._judge(add, p["op"], p["got"], tuple(custom), tuple(canon), p["kind"], p["delims"], "pristine",
                        tuple(outs[2]) if len(outs) > 2 else None)
            if viol:
                break
        bump(st, "reference_forks", zy.forks - f0)
        return res

    def _run_here(self, sc):
        res = new_result()
        st = res["stats"]
        viol = res["violations"]
        warnings.simplefilter("ignore")
        CLOCK.set(clock.EPOCH_US)
        res["probes"] = []
        live = _PerThread()  # spec index -> (env, mutations list); every simulated thread has its own environments
        history = []
        last_spec = [None]
        interleaved = [0]
        regex_meta = set("{}^$*+?.()[]|\\")

        def add(oracle, sig, detail):
            viol.append({"oracle": oracle, "sig": sig, "detail": detail})

        def delims0_of(i):
            return sc["delim_sets"][sc["specs"][i]["delims"]]

        def delims_of(i):
            if i in live:
                for m in reversed(live[i][1]):
                    if m[0] == "redelimit":
                        return m[1]
            return delims0_of(i)

        lmode = sc.get("loader_mode")
        envaware = lmode == "shared_envaware"
        if envaware:
            lmode = None          # every environment keeps its own sources and its canonical twin; only the
        shared_sources = sources_for(sc["specs"][0], sc["delim_sets"][sc["specs"][0]["delims"]]) if lmode else None
        keep_fs = []
        shared_loader = [None]
        if lmode == "fsfactory":
            fsd = SimFS()
            keep_fs.append(fsd)
            fsd.mkdir("tpl")
            for nm, src in shared_sources.items():
                fsd.write("tpl/" + nm, src, 1)

        def loader_for_env():
            if envaware:                      # loader OBJECT is shared
                if shared_loader[0] is None:
                    shared_loader[0] = EnvAwareLoader()
                bump(st, "reach.shared_loader")
                return shared_loader[0]
            if lmode == "shared_choice":
                if shared_loader[0] is None:
                    shared_loader[0] = fresh_shared_style_loader("shared_choice", shared_sources, keep_fs)
                bump(st, "reach.shared_loader")
                return shared_loader[0]
            if lmode == "fsfactory":
                bump(st, "reach.factory_loader_equal_args")
                return liquid.make_file_system_loader(keep_fs[0].path("tpl"), ext="")
            if lmode == "shared_envaware":
                if shared_loader[0] is None:
                    shared_loader[0] = EnvAwareLoader()
                bump(st, "reach.shared_loader")
                return shared_loader[0]
            return None

        def cur_spec(i):
            s = sc["specs"][i]
            out = {"label": s["label"], "recipe": s["recipe"], "custom": s["custom"], "partials": s["partials"],
                   "mutations": list(live[i][1]) if i in live else []}
            if lmode:
                out["loader_mode"] = lmode
                out["shared_sources"] = shared_sources
            if delims_of(i) != delims0_of(i):
                out["delims0"] = delims0_of(i)      # constructed with these, re-delimited afterwards
            return out

        def ensure(i):
            if i not in live:
                spec = {**cur_spec(i), "mutations": []}
                env = build_env_c11(spec, delims0_of(i), sources_for(spec, delims0_of(i)), loader=loader_for_env())
                live[i] = (env, [])
                d = delims_of(i)
                if d != G.DEFAULT_DELIMS:
                    bump(st, "reach.custom_delims")
                    if any(c in regex_meta for v in d.values() for c in v):
                        bump(st, "reach.regex_meta_delims")
                    if any(c.isalpha() for v in d.values() for c in v):
                        bump(st, "reach.letter_delims")
                hashes = {}
                for j, (e, _) in live.items():
                    hashes.setdefault(hash(e), []).append(j)
                if any(len(v) > 1 for v in hashes.values()):
                    bump(st, "reach.equal_hash_envs_alive")
            return live[i][0]

        def note(i):
            if last_spec[0] is not None and last_spec[0] != i and len(live) > 1:
                interleaved[0] += 1
                bump(st, "reach.interleaved_envs")
            last_spec[0] = i

        def exec_op(op):
            k = op["op"]
            bump(st, "op." + k)
            i = op["spec"]
            if k == "new_env":
                if i in live:
                    del live[i]
                ensure(i)
                note(i)
            elif k == "mutate":
                env = ensure(i)
                apply_mutation(env, sc["specs"][i]["label"], op["m"])
                live[i][1].append(op["m"])
                note(i)
            elif k == "drop":
                if i in live:
                    del live[i]
                    gc.collect()
                    bump(st, "reach.dropped_env")
            elif k == "flood":
                from liquid.parser import get_parser
                info = getattr(get_parser, "cache_info", None)   # (a reach probe only: the memo may be
                before = info() if info else None                # implemented differently one day)
                d = delims_of(i) if op["same_delims"] else G.DEFAULT_DELIMS
                for n in range(op["n"]):
                    if op.get("distinct_lexers"):
                        # rolls the memo of compiled lexers (keyed on the delimiter strings) as well
                        Environment(tag_start_string="<%d%%" % n, tag_end_string="%%%d>" % n,
                                    statement_start_string="<%d<" % n, statement_end_string=">%d>" % n).from_string("x")
                        continue
                    Environment(tag_start_string=d["ts"], tag_end_string=d["te"], statement_start_string=d["os"],
                                statement_end_string=d["oe"])
                if op.get("distinct_lexers"):
                    bump(st, "reach.flood_rolled_lexer_cache")
                after = info() if info else None
                if after and after.currsize >= (after.maxsize or 1 << 30) and after.misses - before.misses >= 128:
                    bump(st, "reach.flood_rolled_parser_cache")
            elif k == "implicit":
                d = delims_of(i)
                r = sc["specs"][i]["recipe"]
                tr = tree_for(sc["trees"][op["tree"]], r)
                src = G.render_source(tr, with_lc(d, r))
                csrc = G.render_source(tr, G.DEFAULT_DELIMS)
                kw = {"tag_start_string": d["ts"], "tag_end_string": d["te"], "statement_start_string": d["os"],
                      "statement_end_string": d["oe"], "extra": r["extra"], "tolerance": None,
                      "strict_filters": r["strict_filters"], "autoescape": r["autoescape"]}
                if r["template_comments"]:
                    kw.update(template_comments=True, comment_start_string=d["cs"], comment_end_string=d["ce"])
                ckw = {k2: v for k2, v in kw.items() if not k2.endswith("_string")}
                for dct in (kw, ckw):
                    dct["tolerance"] = MODES[r["mode"]]
                dspec = sc["datas"][op["data"]]
                data = build_data(dspec, None)
                bump(st, "reach.implicit")
                got = norm(outcome(lambda: liquid.Template(src, **kw).render(**data)))
                pk = {k2: (v.name if isinstance(v, Mode) else v) for k2, v in kw.items()}
                key = digest(("imp", src, pk, dspec))
                probe = {"kind": "implicit", "source": src, "kwargs": kw, "canon_source": csrc, "canon_kwargs": ckw,
                         "data": dspec}
                history.append([op["uid"], "implicit", got[0], got[1] if got[0] == "err" else digest(got[1])])
                res["probes"].append({"uid": op["uid"], "op": op, "kind": "implicit", "key": key, "probe": probe,
                                      "got": got, "delims": d})
            elif k == "failed_env":
                # a construction that fails half way (user code raising inside add_tag): the
                # abandoned environment must leave nothing behind for the ones created later
                spec = {**cur_spec(i), "mutations": []}
                try:
                    G.build_env(spec["recipe"], LatencyDictLoader({}), delims_of(i), subclass=dying(op["fail_at"]))
                    history.append([op["uid"], "failed_env", "constructed"])
                except ConstructionFault:
                    bump(st, "fault.env_construction_failed")
                    history.append([op["uid"], "failed_env", "raised"])
            elif k == "embed":
                # a template parsed by environment j, handed as data to a template of environment i
                # and placed with {% render guest %}: it must behave as it does on its own
                j = op["guest"]
                env_i, env_j = ensure(i), ensure(j)
                note(i)
                sj = cur_spec(j)
                gsrc = G.render_source(guest_tree(sj), with_lc(delims_of(j), sj["recipe"]))
                di = delims_of(i)
                si_ = cur_spec(i)
                # the host applies the same-named filters itself, before and after the guest
                side = "%s 'w' | upcase %s" % (di["os"], di["oe"])
                if si_["custom"].get("filter") or any(m[:2] == ["add_filter", "mark"] for m in si_["mutations"]):
                    side += "%s 'v' | mark %s" % (di["os"], di["oe"])
                hsrc = "[%s%s render guest %s%s]" % (side, di["ts"], di["te"], side)
                guest = outcome(lambda: env_j.from_string(gsrc))
                host_side = norm(outcome(lambda: env_i.from_string(side).render()))
                if guest[0] == "ok" and host_side[0] == "ok":
                    alone = norm(outcome(lambda: guest[1].render()))
                    emb = norm(outcome(lambda: env_i.from_string(hsrc).render(guest=guest[1])))
                    bump(st, "reach.embedded_guest")
                    history.append([op["uid"], "embed", i, j, emb[0], alone[0]])
                    if alone[0] == "ok" and emb != ("ok", "[" + host_side[1] + alone[1] + host_side[1] + "]"):
                        add("independence", "embedding:%s" % ("output" if emb[0] == "ok" else emb[1]),
                            {"op": op, "guest_alone": _brief(alone), "embedded_in_host": _brief(emb),
                             "guest_source": gsrc, "host_source": hsrc})
            elif k == "default_template":
                if nthreads:
                    return        # customising a process-wide object: sequential histories only
                # liquid.Template(source) with no options at all, while the application has customised
                # liquid.DEFAULT_ENVIRONMENT (its documented use): the implicit environment behind
                # Template() is another object and must not notice
                plain = {**sc["specs"][i]["recipe"], "template_comments": False}
                src = G.render_source(tree_for(sc["trees"][op["tree"]], plain), G.DEFAULT_DELIMS)
                dspec = sc["datas"][op["data"]]
                data = build_data(dspec, None)
                denv = liquid.DEFAULT_ENVIRONMENT
                saved = (dict(denv.filters), dict(denv.tags))
                try:
                    if op.get("customise_default"):
                        denv.add_filter("upcase", lambda v: "%s<DEFAULT-ENV>" % v)
                        denv.add_filter("mark", lambda v: "%s<DEFAULT-ENV>" % v)
                        denv.add_tag(make_mark_tag("DEFAULT-ENV"))
                        bump(st, "reach.default_environment_customised")
                    got = norm(outcome(lambda: liquid.Template(src).render(**data)))
                finally:
                    denv.filters.clear(), denv.filters.update(saved[0])
                    denv.tags.clear(), denv.tags.update(saved[1])
                key = digest(("imp0", src, dspec))
                probe = {"kind": "implicit", "source": src, "kwargs": {}, "canon_source": src, "canon_kwargs": {},
                         "data": dspec}
                history.append([op["uid"], "default_template", got[0], got[1] if got[0] == "err" else digest(got[1])])
                res["probes"].append({"uid": op["uid"], "op": op, "kind": "implicit", "key": key, "probe": probe,
                                      "got": got, "delims": G.DEFAULT_DELIMS})
            elif k == "cross_parse":
                env = ensure(i)
                note(i)
                si = op["src_spec"]
                ri = sc["specs"][si]["recipe"]
                src = G.render_source(tree_for(sc["trees"][op["tree"]], ri), with_lc(delims_of(si), ri))
                dspec = sc["datas"][op["data"]]
                got = probe_outcome(env, src, dspec, "render")
                spec = cur_spec(i)
                d = delims_of(i)
                key = digest(("x", spec, d, src, dspec))
                probe = {"kind": "probe", "spec": spec, "delims": d, "source": src, "canon_source": None,
                         "data": dspec, "what": "render"}
                bump(st, "reach.cross_parse")
                history.append([op["uid"], "cross", i, si, got[0], got[1] if got[0] == "err" else digest(got[1])])
                res["probes"].append({"uid": op["uid"], "op": op, "kind": "render", "key": key, "probe": probe,
                                      "got": got, "delims": d})
            elif k == "async_batch":
                if nthreads:
                    return        # one event loop per run; not from simulated threads
                items = []
                for it in op["items"]:
                    ii = it["spec"]
                    env = ensure(ii)
                    note(ii)
                    d = delims_of(ii)
                    tr = tree_for(sc["trees"][it["tree"]], sc["specs"][ii]["recipe"])
                    src = G.render_source(tr, with_lc(d, sc["specs"][ii]["recipe"]))
                    items.append((it, ii, env, d, tr, src))
                loop = SimLoop(Rng(op["lat_seed"], ("batch",)), step_cap=400000,
                               lat_profile={"max": 0.01, "zero_p": 0.3, "stall_p": 0.0})
                outs = {}

                async def one(it, env, src, dspec):
                    loop.streams[asyncio.current_task().get_name()] = loop.rng.fork("item", it["uid"])
                    await loop.latency("start")
                    async def go():
                        if it.get("load"):
                            t = await env.get_template_async(it["load"])
                        else:
                            t = env.from_string(src)
                        return await t.render_async(**build_data(dspec, None))
                    outs[it["uid"]] = norm(await outcome_async(go()))

                async def root():
                    ts = [loop.create_task(one(it, env, src, sc["datas"][it["data"]]), name="b%d" % it["uid"])
                          for (it, ii, env, d, tr, src) in items]
                    await asyncio.gather(*ts)
                LOOP_REF[0] = loop
                try:
                    loop.run_sim(root())
                except SimDeadlock:
                    add("liveness", "liveness:deadlock", {"op": op})
                    return
                finally:
                    LOOP_REF[0] = None
                bump(st, "reach.async_batch")
                bump(st, "async.suspensions", loop.suspensions)
                for (it, ii, env, d, tr, src) in items:
                    got = outs.get(it["uid"], ("err", "NoResult"))
                    dspec = sc["datas"][it["data"]]
                    spec = cur_spec(ii)
                    csrc = G.render_source(tr, G.DEFAULT_DELIMS)
                    what = ("load:" + it["load"]) if it.get("load") else "render"
                    key = digest(("p", spec, d, src, dspec, what))
                    probe = {"kind": "probe", "spec": spec, "delims": d, "source": src,
                             "canon_source": None if lmode else csrc, "data": dspec, "what": what}
                    history.append([it["uid"], "async", ii, got[0], got[1] if got[0] == "err" else digest(got[1])])
                    res["probes"].append({"uid": it["uid"], "op": {**op, "item": it}, "kind": "render", "key": key,
                                          "probe": probe, "got": got, "delims": d})
            else:
                env = ensure(i)
                note(i)
                if live[i][1]:
                    bump(st, "reach.parse_after_mutation")
                d = delims_of(i)
                tr = tree_for(sc["trees"][op["tree"]], sc["specs"][i]["recipe"])
                src = G.render_source(tr, with_lc(d, sc["specs"][i]["recipe"]))
                csrc = G.render_source(tr, G.DEFAULT_DELIMS)
                dspec = sc["datas"][op["data"]]
                what = "env_render" if op.get("via_env") else k
                got = probe_outcome(env, src, dspec, what)
                spec = cur_spec(i)
                key = digest(("p", spec, d, src, dspec, what))
                probe = {"kind": "probe", "spec": spec, "delims": d, "source": src,
                         "canon_source": None if lmode else csrc, "data": dspec, "what": what}
                if not lmode and sc["specs"][i]["recipe"]["template_comments"] and not _has_tcomment(tr) \
                        and not any(_has_tcomment(t) for t in sc["specs"][i]["partials"].values()):
                    probe["canon_plain"] = True
                history.append([op["uid"], k, i, got[0], got[1] if got[0] == "err" else digest(got[1])])
                res["probes"].append({"uid": op["uid"], "op": op, "kind": k, "key": key, "probe": probe, "got": got,
                                      "delims": d})

        nthreads = sc.get("threads") or 0
        try:
            if not nthreads:
                for op in sc["ops"]:
                    exec_op(op)
                    if viol:
                        break
            else:
                self._run_threads(sc, res, exec_op, history)
        finally:
            for f in keep_fs:
                f.close()
        res["steps"] = res.get("steps") or len(history)
        res["isig"] = res.get("isig") or digest([(h[0], h[1]) for h in history])
        res["digest"] = digest((history, res.get("isig")))
        res["nontrivial"] = interleaved[0] > 0 or bool(nthreads and st.get("reach.thread_switch_inside_op"))
        seen, out = set(), []
        for v in viol:
            if v["sig"] not in seen:
                seen.add(v["sig"])
                out.append(v)
        res["violations"] = out
        return res

    TRACE_FILES = ("liquid/lex.py", "liquid/parser.py", "liquid/environment.py", "liquid/stream.py",
                   "liquid/builtin/tags/liquid_tag.py", "liquid/builtin/tags/ifchanged_tag.py")

    def _run_threads(self, sc, res, exec_op, history):
        """The same operations, dealt round-robin to 2-3 simulated threads that each own their
        environments: real threads under the seeded baton scheduler, pre-empted at every line of
        the lexer / parser / environment modules (where the process-wide memo caches live)."""
        st = res["stats"]
        # The scheduler pre-empts at line events inside lex.py / parser.py / environment.py; whether a
        # memoised lexer or parser is found there or has to be built changes how many lines run, i.e.
        # the schedule.  So that a thread-mode run is a pure function of its scenario (and not of what
        # this worker happened to run before), it starts from empty memo caches.
        import liquid.environment as _envmod
        import liquid.lex as _lexmod
        import liquid.parser as _parsermod
        for fn in (getattr(_lexmod, "get_lexer", None), getattr(_parsermod, "get_parser", None),
                   getattr(_envmod, "get_implicit_environment", None)):
            clear = getattr(fn, "cache_clear", None)
            if clear is not None:
                clear()
        rng = Rng(sc["tsched_seed"], ("tsched",))
        sim = SimThreads(rng, switch_p=sc["switch_p"], trace_files=self.TRACE_FILES, step_cap=6_000_000)
        n = sc["threads"]
        ops = [op for op in sc["ops"] if op["op"] != "flood"]
        inside = [0]

        def client(mine):
            def body():
                for op in mine:
                    sim.point("op")
                    if res["violations"]:
                        return
                    sw0 = sim.switches
                    exec_op(op)
                    if sim.switches != sw0:
                        inside[0] += 1
            return body
        for t in range(n):
            sim.spawn("t%d" % t, client(ops[t::n]))
        sim.run()
        herr = [t for t in sim.threads if t.error is not None]
        if herr:
            raise RuntimeError("client thread harness error") from herr[0].error
        if sim.aborted == "STEP-CAP":
            raise RuntimeError("HARNESS-TIMEOUT: step cap reached in SimThreads")
        if sim.aborted == "DEADLOCK":
            res["violations"].append({"oracle": "threads", "sig": "threads:deadlock", "detail": {}})
        bump(st, "runs.threads")
        bump(st, "thread.switches", sim.switches)
        bump(st, "reach.thread_switch_inside_op", inside[0])
        res["steps"] = sim.steps
        res["isig"] = digest(sim.trace)

    def _judge(self, add, op, got, custom, canon, kind, d, ref="pristine", plain=None):
        got, custom, canon = tuple(got), tuple(custom), tuple(canon)

        def cls(a, b):
            if a[0] == b[0] == "ok":
                return "output"
            return "%s->%s" % (b[1] if b[0] == "err" else "ok", a[1] if a[0] == "err" else "ok")
        if got != custom:
            add("independence", "independence:%s:%s" % (kind, cls(got, custom)),
                {"op": op, "in_history": _brief(got), ref: _brief(custom), "delims": d,
                 "reference": "fresh environment, reversed order" if ref == "order" else "pristine fork"})
            return
        if kind == "parse" and custom[0] == canon[0] == "ok":
            return   # serialised forms are compared within one configuration only
        if custom != canon:
            default = d == G.DEFAULT_DELIMS
            add("delimiter-equivalence", "equivalence:%s:%s" % (kind, cls(custom, canon)),
                {"op": op, "custom_delims": _brief(custom), "default_delims": _brief(canon), "delims": d,
                 "is_default": default})
            return
        if plain is not None and kind != "parse" and custom != plain:
            add("delimiter-equivalence", "equivalence:plain-baseline:%s" % cls(custom, plain),
                {"op": op, "with_comment_delimiters": _brief(custom),
                 "default_environment_without_template_comments": _brief(plain), "delims": d})

    # -- minimisation ------------------------------------------------------------
    def _compact(self, sc):
        """Drop specs, delimiter sets, trees and data no operation refers to (re-indexing)."""
        ops = sc["ops"]
        items = [it for op in ops for it in op.get("items", [])]
        us = sorted({op["spec"] for op in ops} | {op["guest"] for op in ops if "guest" in op} | {it["spec"] for it in items}
                    | {op["src_spec"] for op in ops if "src_spec" in op} | ({0} if sc.get("loader_mode") else set()))
        ut = sorted({op["tree"] for op in ops if "tree" in op} | {it["tree"] for it in items})
        ud = sorted({op["data"] for op in ops if "data" in op} | {it["data"] for it in items})
        udl = sorted({sc["specs"][i]["delims"] for i in us})
        sm, tm, dm, lm = ({v: i for i, v in enumerate(x)} for x in (us, ut, ud, udl))
        specs = [{**sc["specs"][i], "delims": lm[sc["specs"][i]["delims"]]} for i in us]

        def fix(op):
            op = dict(op, spec=sm[op["spec"]])
            if "tree" in op:
                op["tree"] = tm[op["tree"]]
            if "data" in op:
                op["data"] = dm[op["data"]]
            if "guest" in op:
                op["guest"] = sm[op["guest"]]
            if "src_spec" in op:
                op["src_spec"] = sm[op["src_spec"]]
            if "items" in op:
                op["items"] = [{**it, "spec": sm[it["spec"]], "tree": tm[it["tree"]], "data": dm[it["data"]]}
                               for it in op["items"]]
            return op
        return {**sc, "specs": specs, "delim_sets": [sc["delim_sets"][i] for i in udl],
                "trees": [sc["trees"][i] for i in ut] or sc["trees"][:1],
                "datas": [sc["datas"][i] for i in ud] or sc["datas"][:1], "ops": [fix(op) for op in ops]}

    def shrink(self, sc):
        for cand in shrink_list(sc["ops"]):
            yield {**sc, "ops": cand}
        if sc.get("loader_mode"):
            yield {**sc, "loader_mode": None}
        if sc.get("threads"):
            yield {k: v for k, v in sc.items() if k not in ("threads", "switch_p", "tsched_seed")}
            if sc["threads"] > 2:
                yield {**sc, "threads": 2}
            for d in range(1, 4):
                yield {**sc, "tsched_seed": (sc["tsched_seed"] * 31 + d) % (1 << 30)}
        if sc["ops"]:
            comp = self._compact(sc)
            if (len(comp["specs"]), len(comp["trees"]), len(comp["datas"]), len(comp["delim_sets"])) != \
                    (len(sc["specs"]), len(sc["trees"]), len(sc["datas"]), len(sc["delim_sets"])):
                yield comp
        used_t = sorted({op["tree"] for op in sc["ops"] if "tree" in op})
        for t in used_t:
            for sub in G.shrink_tree(sc["trees"][t]):
                yield {**sc, "trees": sc["trees"][:t] + [sub] + sc["trees"][t + 1:]}
        for j, d in enumerate(sc["datas"]):
            for key in sorted(d["vars"]):
                nv = {k: v for k, v in d["vars"].items() if k != key}
                yield {**sc, "datas": sc["datas"][:j] + [{**d, "vars": nv}] + sc["datas"][j + 1:]}
        for j, ds in enumerate(sc["delim_sets"]):
            if ds != G.DEFAULT_DELIMS:
                yield {**sc, "delim_sets": sc["delim_sets"][:j] + [dict(G.DEFAULT_DELIMS)] + sc["delim_sets"][j + 1:]}
        for j, op in enumerate(sc["ops"]):
            if op["op"] == "async_batch" and len(op["items"]) > 1:
                for q in range(len(op["items"])):
                    yield {**sc, "ops": sc["ops"][:j] + [{**op, "items": op["items"][:q] + op["items"][q + 1:]}] + sc["ops"][j + 1:]}
        for j, op in enumerate(sc["ops"]):
            if op["op"] == "flood" and op["n"] > 129:
                yield {**sc, "ops": sc["ops"][:j] + [{**op, "n": 129}] + sc["ops"][j + 1:]}


class _PerThread:
    """A dict per calling thread (the sequential history uses the main thread's)."""

    def __init__(self):
        self.by = {}

    def _d(self):
        return self.by.setdefault(threading.get_ident(), {})

    def __contains__(self, k):
        return k in self._d()

    def __getitem__(self, k):
        return self._d()[k]

    def __setitem__(self, k, v):
        self._d()[k] = v

    def __delitem__(self, k):
        del self._d()[k]

    def __len__(self):
        return len(self._d())

    def items(self):
        return list(self._d().items())


def _plain_raw(nodes):
    """Raw / doc / comment blocks with plain text only (see ASSUMPTIONS)."""
    out = []
    for n in nodes:
        if n[0] == "rawblock" and n[1] == "raw":
            out.append(["rawblock", n[1], "plain text", n[3]])
        elif n[0] == "rawblock" and n[1] == "doc":
            out.append(n)       # a doc block prints nothing: its text may mention any markup
        elif n[0] == "block" and n[1] == "comment":
            out.append(["block", "comment", "", [["text", "note"]], [], "endcomment", ""])
        elif n[0] == "block":
            out.append(["block", n[1], n[2], _plain_raw(n[3]), [[c[0], c[1], _plain_raw(c[2])] for c in n[4]], n[5], n[6]])
        elif n[0] in ("seq", "liquid"):
            out.append([n[0], _plain_raw(n[1])])
        elif n[0] == "tcomment":
            out.append(["tcomment", " note "])
        else:
            out.append(n)
    return out


def _brief(o):
    s = repr(o)
    return s if len(s) < 900 else s[:900] + "..."


if __name__ == "__main__":
    sys.exit(driver.main(C11()))

"""C01 - Synchronous and asynchronous APIs behave identically.

Two environments are built from one recipe (they share no cache): E_sync is
the executable reference model, E_async the system under test.  1-6 client
tasks on SimLoop render / load / analyse through the ``*_async`` API while
loaders, executor jobs and async drops suspend for seeded latencies (several
clients may render the *same* template object with different data).  When an
operation returns, the same operation is executed synchronously on E_sync and
the outcomes are compared (refinement): same string or same exception class.
"""
from __future__ import annotations

import ast
import asyncio
import importlib
import os
import sys
import warnings

sys.path.insert(0, os.path.dirname(os.path.dirname(os.path.abspath(__file__))))

from simkit import clock, driver  # noqa: E402
from simkit.driver import bump, new_result, shrink_list  # noqa: E402
from simkit.fs import SimFS  # noqa: E402
from simkit.loop import SimDeadlock, SimLoop, SimStepCap  # noqa: E402
from simkit.rng import Rng, digest  # noqa: E402
from workload import gen as G  # noqa: E402
from workload.runtime import (NS_KEY, StaticSimLoader, add_sim_filters, build_data,  # noqa: E402
                              canon_analysis, outcome, outcome_async)

import liquid  # noqa: E402
from liquid import (BoundTemplate, CachingChoiceLoader, CachingDictLoader,  # noqa: E402
                    CachingFileSystemLoader, ChoiceLoader, DictLoader, FileSystemLoader, PackageLoader,
                    RenderContext)
from liquid.builtin.loaders.mixins import CachingLoaderMixin  # noqa: E402

clock.install()
ADDR_RE = __import__("re").compile(r" at 0x[0-9a-fA-F]+")

HELPERS = ["variables", "variable_paths", "variable_segments", "global_variables", "global_variable_paths",
           "global_variable_segments", "filter_names", "tag_names"]
LIQUID_DIR = os.path.dirname(os.path.abspath(sys.modules["liquid"].__file__))


class CachingSimLoader(CachingLoaderMixin, StaticSimLoader):
    def __init__(self, store, loop_ref, style, *, namespace_key, capacity, auto_reload):
        super().__init__(auto_reload=auto_reload, namespace_key=namespace_key, capacity=capacity)
        StaticSimLoader.__init__(self, store, loop_ref, style, matter=True)


def async_defs():
    """Every ``async def`` in liquid/ as 'relative/file.py:qualname' (from source, with ast)."""
    out = []
    for root, _dirs, files in os.walk(LIQUID_DIR):
        for f in sorted(files):
            if not f.endswith(".py"):
                continue
            p = os.path.join(root, f)
            try:
                tree = ast.parse(open(p, encoding="utf-8").read())
            except SyntaxError:
                continue
            rel = os.path.relpath(p, LIQUID_DIR)

            def walk(node, prefix):
                for ch in ast.iter_child_nodes(node):
                    if isinstance(ch, ast.AsyncFunctionDef):
                        out.append("%s:%s%s" % (rel, prefix, ch.name))
                        walk(ch, prefix + ch.name + ".")
                    elif isinstance(ch, (ast.ClassDef, ast.FunctionDef)):
                        walk(ch, prefix + ch.name + ".")
            walk(tree, "")
    return sorted(out)


class C01:
    PROP = "C01"
    LEVEL = "exploration"
    NO_PIN = True   # no baton threads here: let the OS scheduler place the workers
    TIERS = {
        "quick": {"runs": 100000, "budget_s": 50, "chunk": 100, "determinism_runs": 32},
        "thorough": {"runs": 1500000, "budget_s": 900, "chunk": 200, "determinism_runs": 256, "minimise_s": 150},
    }
    RULE = ("Each run: one environment recipe (mode, undefined type, autoescape, feature flags, limits, extra), one "
            "loader kind (dict/choice/file-system/custom and their caching variants, namespace_key on/off), a "
            "generated template set (mains, partials, inheritance chains) and data specs (some wrapped in async "
            "drops); 1-6 concurrent client tasks x 1-5 ops (render, load-by-name + render, load + compare "
            "attributes, analyze, analysis helpers). Non-trivial = >=1 real suspension inside an operation and >=2 "
            "operations overlapped; distinct = hash(scenario, interleaving signature).")
    STATE_MEASURE = "distinct (op kind, loader kind, outcome class) tuples"
    COMPONENTS = {
        "real": ["all of liquid/ from /repo's working tree (lexer, parser, every tag/expression/filter async twin, "
                 "RenderContext, loaders, static analysis)", "CPython asyncio Task/Future", "pathlib/os on tmpfs"],
        "stub": ["event loop selector/clock + executor (SimLoop)", "wall clock (SimClock, frozen during a run)",
                 "StaticSimLoader (custom loader with seeded latency)", "SimDrop (async drops with seeded latency)"],
    }
    ASSUMPTIONS = [
        "exceptions compare by class name; warnings are not compared",
        "the synchronous API is the reference model (a bug present identically in both twins is invisible here)",
        "template sources are static during a run (edits are C23's subject)",
    ]
    REQUIRED_REACH = ["fault.cancel_landed", "fault.loader_error", "reach.second_event_loop",
                      "reach.edited_between_loops", "reach.suspended_op", "reach.overlap", "reach.same_template_concurrently",
                      "reach.exec_out_of_order", "reach.drop_suspension", "reach.op.render", "reach.op.load",
                      "reach.op.analyze", "reach.op.helper", "reach.outcome.err"]

    # -- generation ------------------------------------------------------------
    def gen(self, run_seed, tier):
        rng = Rng(run_seed, ("gen",))
        recipe = G.gen_recipe(rng)
        kind = rng.weighted([("dict", 2), ("cdict", 2), ("choice", 1), ("cchoice", 2), ("fs", 2), ("cfs", 3),
                             ("sim", 3), ("csim", 3), ("pkg", 1.5)])
        pnames = rng.sample(["p", "d/q.liquid", "r.html", "sub/deep/s", "q.liquid"], rng.randint(1, 4))
        templates = {}
        for i, nm in enumerate(pnames):
            tg = G.TreeGen(rng, recipe["flags"], recipe["extra"], partials=pnames[i + 1:], drops=True,
                           template_comments=recipe["template_comments"], budget=rng.randint(2, 7), max_depth=1,
                           simfilters=True)
            templates[nm] = tg.template()
        top = None
        if recipe["extra"] and rng.chance(0.5):
            inh, top = G.gen_inheritance(rng, recipe["flags"])
            templates.update(inh)
        broken_mains, broken_names = [], []
        if top and rng.chance(0.5):
            brk, broken_mains, broken_names = G.gen_broken_inheritance(rng, top)
            templates.update(brk)
        mains = []
        for _ in range(rng.randint(1, 3)):
            tg = G.TreeGen(rng, recipe["flags"], recipe["extra"], partials=pnames, drops=True,
                           template_comments=recipe["template_comments"], budget=rng.randint(4, 24),
                           max_depth=rng.randint(1, 3), simfilters=True)
            mains.append(tg.template())
        mains.extend(broken_mains)
        datas = [G.gen_data(rng, drops=True) for _ in range(rng.randint(1, 3))]
        for d in datas:
            if rng.chance(0.5):
                d["vars"][NS_KEY] = rng.choice(["u1", "u2"])
        names = list(templates)
        uid = [0]

        def gen_op():
            uid[0] += 1
            k = rng.weighted([("render", 8), ("render_named", 4), ("load", 3), ("analyze", 2), ("helper", 1),
                              ("env_render", 1), ("toplevel", 0.3), ("analyze_tags", 0.7), ("ctx_load", 0.5)])
            op = {"op": k, "uid": uid[0], "data": rng.randrange(len(datas))}
            if k in ("env_render", "toplevel"):
                op["main"] = rng.randrange(len(mains))
            elif k in ("render", "analyze", "helper") and rng.chance(0.75):
                op["main"] = rng.randrange(len(mains))
            else:
                op["name"] = (top if top and rng.chance(0.4) else rng.choice(names)) if rng.chance(0.93) else "nope"
                op["ns"] = rng.choice([None, "u1", "u2"])
                op["globals"] = rng.choice([None, {"g": "RG"}])
            if k == "helper":
                op["helper"] = rng.choice(HELPERS)
            if k in ("analyze", "helper"):
                op["partials"] = rng.chance(0.8)
            if rng.chance(0.25):
                op["sync_too"] = True
            return op

        clients = [{"id": c, "ops": [gen_op() for _ in range(rng.randint(1, 5))]} for c in range(rng.randint(1, 6))]
        loader_faults = {}
        if kind in ("sim", "csim", "choice", "cchoice") and rng.chance(0.25):
            # a backing store that fails for some names (not "not found": a real error), the same way
            # for both APIs: both must then fail with the same kind of error, none may quietly fall back
            for nm in rng.sample(names, rng.randint(1, min(2, len(names)))):
                loader_faults[nm] = rng.choice(["OSError", "ValueError", "UnicodeDecodeError", "LiquidSyntaxError"])
        for c in clients:
            for op in c["ops"]:
                if rng.chance(0.06):
                    op["cancel_after"] = round(rng.random() * 0.01, 5)   # this caller gives up; the others must not notice
        seq_edit = None
        seq_break = None
        if kind == "cfs" and rng.chance(0.25):
            # one sequential caller, a small cache, by-name operations: eviction order matters
            ops = []
            for _ in range(rng.randint(6, 12)):
                op = gen_op()
                if "main" in op and op["op"] in ("render", "analyze", "helper") and rng.chance(0.8):
                    op.pop("main")
                    op["name"] = rng.choice(names)
                    op["ns"] = None
                    op["globals"] = None
                ops.append(op)
            clients = [{"id": 0, "ops": ops}]
            seq_edit = rng.sample(names, rng.randint(1, min(2, len(names))))
            dirs = sorted({n.split("/")[0] for n in names if "/" in n})
            if dirs and rng.chance(0.4):
                seq_break = rng.choice(dirs)     # this folder is replaced by a plain file between the halves
        override = None
        if kind == "fs" and rng.chance(0.5):
            # two search directories; between two phases of the run (nothing in flight) some names gain a
            # file in the directory that comes FIRST: both APIs must then serve the override
            override = {"names": rng.sample(names, rng.randint(1, min(2, len(names))))}
            for c in clients:
                ops2 = []
                for _ in range(rng.randint(0, 3)):
                    op = gen_op()
                    if "name" in op and rng.chance(0.7):
                        op["name"] = rng.choice(override["names"])
                    ops2.append(op)
                c["ops2"] = ops2
        if len(clients) > 1 and len(datas) > 1 and rng.chance(0.35):
            # swarm bias: every client hammers ONE template object with different data at the same time
            m = rng.randrange(len(mains))
            for ci, c in enumerate(clients):
                for op in c["ops"]:
                    if op["op"] == "render":
                        op.pop("name", None), op.pop("ns", None), op.pop("globals", None)
                        op["main"] = m
                        op["data"] = (ci + op["uid"]) % len(datas)
        if seq_edit or override:
            # sources change during these runs: an extra request on the asynchronous side's environment
            # would give its cache another history than the reference's (a different entry evicted, a
            # reload at another moment), and after the edit the two would legitimately differ
            for c in clients:
                for op in c["ops"] + (c.get("ops2") or []):
                    op.pop("sync_too", None)
        return {
            "pkg": "lvc01_%x" % (run_seed & 0xFFFFFFFF),
            "recipe": recipe, "loader": kind, "ns_key": NS_KEY if rng.chance(0.5) else "",
            "capacity": rng.choice([1, 2] if seq_edit else [1, 2, 300]), "auto_reload": rng.chance(0.7),
            "uptodate": rng.choice(["fs-like", "sync", "none"]), "ext": rng.choice([None, ".liquid"]),
            "templates": templates, "mains": mains, "datas": datas, "clients": clients, "override": override,
            "loader_faults": loader_faults, "factory": rng.chance(0.25),
            # the application runs its operations in two successive event loops (asyncio.run twice)
            "segments": 2 if override is None and (seq_edit or rng.chance(0.2)) else 1,
            # sequential runs on a caching file-system loader: between the two halves some sources are
            # edited in place; both APIs replay the same history, so their caches must agree afterwards
            "edit_between": seq_edit, "break_between": seq_break, "edit_older": rng.chance(0.4),
            "sched_seed": rng.randrange(1 << 30),
            "lat": {"max": 0.01, "zero_p": rng.choice([0.1, 0.4]), "stall_p": rng.choice([0.0, 0.03])},
            "profile": rng.chance(0.04),
        }

    # -- build -----------------------------------------------------------------
    def _loader(self, sc, sources, fs, loop_ref):
        kind = sc["loader"]
        kw = dict(auto_reload=sc["auto_reload"], namespace_key=sc["ns_key"], capacity=sc["capacity"])
        store = {}
        for nm, src in sources.items():
            store[("", nm)] = src
            for ns in ("u1", "u2"):
                store[(ns, nm)] = "<%s>%s" % (ns, src)   # every tenant its own variant: both APIs must pick the same one
        if kind == "dict":
            return DictLoader(dict(sources))
        if kind == "cdict":
            return CachingDictLoader(dict(sources), **kw)
        if kind in ("fs", "cfs"):
            root = fs.path("root")
            if kind == "fs" and sc.get("override"):
                return FileSystemLoader([fs.path("hi"), root], ext=sc["ext"])
            if sc.get("factory"):      # the documented factory builds the same loaders
                return liquid.make_file_system_loader(root, ext=sc["ext"], auto_reload=sc["auto_reload"],
                                                      namespace_key=sc["ns_key"],
                                                      cache_size=sc["capacity"] if kind == "cfs" else 0)
            return FileSystemLoader(root, ext=sc["ext"]) if kind == "fs" else \
                CachingFileSystemLoader(root, ext=sc["ext"], **kw)
        if kind == "pkg":
            return PackageLoader(sc["pkg"], package_path="templates", ext=".liquid")
        lf = sc.get("loader_faults") or {}
        if kind == "sim":
            return StaticSimLoader(store, loop_ref, sc["uptodate"], matter=True, faults=lf)
        if kind == "csim":
            ld = CachingSimLoader(store, loop_ref, sc["uptodate"], **kw)
            ld.faults = dict(lf)
            ld.namespaced = bool(sc["ns_key"])   # a namespaced store behind a cache without namespace_key
            return ld                            # would be a misconfiguration, not a defect
        names = sorted(sources)
        half = {n: sources[n] for n in names[::2]}
        rest = {("", n): sources[n] for n in names[1::2]}
        subs = [DictLoader(half), StaticSimLoader(rest, loop_ref, sc["uptodate"], namespaced=False, faults=lf),
                FileSystemLoader(fs.path("root"))]
        if sc.get("factory"):
            return liquid.make_choice_loader(subs, auto_reload=sc["auto_reload"], namespace_key=sc["ns_key"],
                                             cache_size=sc["capacity"] if kind == "cchoice" else 0)
        return ChoiceLoader(subs) if kind == "choice" else CachingChoiceLoader(subs, **kw)

    # -- execution ---------------------------------------------------------------
    def run(self, sc):
        res = new_result()
        fs = SimFS()
        prof = {}
        try:
            with warnings.catch_warnings(record=True) as wlist:
                warnings.simplefilter("always")
                if sc.get("profile"):
                    def hook(frame, event, arg):
                        if event == "call":
                            co = frame.f_code
                            if co.co_flags & 0x80 and co.co_filename.startswith(LIQUID_DIR):
                                key = "%s:%s" % (os.path.relpath(co.co_filename, LIQUID_DIR),
                                                   co.co_qualname.replace(".<locals>", ""))
                                prof[key] = prof.get(key, 0) + 1
                    sys.setprofile(hook)
                try:
                    self._run_world(sc, fs, res)
                finally:
                    sys.setprofile(None)
                    if fs.path("pkgs") in sys.path:
                        sys.path.remove(fs.path("pkgs"))
                        for m in [m for m in sys.modules if m == sc["pkg"] or m.startswith(sc["pkg"] + ".")]:
                            del sys.modules[m]
                        importlib.invalidate_caches()
            for x in wlist:
                if "never awaited" in str(x.message):
                    res["violations"].append({"oracle": "hygiene", "sig": "hygiene:coroutine-never-awaited",
                                              "detail": {"warning": str(x.message)[:200]}})
                    break
        finally:
            fs.close()
        for k in prof:
            bump(res["stats"], "twin." + k)
        if sc.get("profile"):
            bump(res["stats"], "profiled_runs")
        seen, out = set(), []
        for v in res["violations"]:
            if v["sig"] not in seen:
                seen.add(v["sig"])
                out.append(v)
        res["violations"] = out
        return res

    def _run_world(self, sc, fs, res):
        st = res["stats"]
        viol = res["violations"]
        recipe = sc["recipe"]
        sources = {nm: G.render_source(tree) for nm, tree in sc["templates"].items()}
        fs.mkdir("root")
        fs.mkdir("hi")
        for nm, src in sources.items():
            rel = nm if "." in nm.rsplit("/", 1)[-1] or not sc["ext"] else nm + sc["ext"]
            fs.write("root/" + rel, src, 1)
        if sc["loader"] == "pkg":
            fs.write("pkgs/%s/__init__.py" % sc["pkg"], "", 1)
            for nm, src in sources.items():
                rel = nm if "." in nm.rsplit("/", 1)[-1] else nm + ".liquid"
                fs.write("pkgs/%s/templates/%s" % (sc["pkg"], rel), src, 1)
            sys.path.insert(0, fs.path("pkgs"))
            importlib.invalidate_caches()
        loop_ref = [None]
        env_s = G.build_env(recipe, self._loader(sc, sources, fs, [None]))
        env_a = G.build_env(recipe, self._loader(sc, sources, fs, loop_ref))
        add_sim_filters(env_s, [None])
        add_sim_filters(env_a, loop_ref)
        main_src = [G.render_source(t) for t in sc["mains"]]
        mains_s = [outcome(lambda s=s: env_s.from_string(s, name="main%d" % i)) for i, s in enumerate(main_src)]
        mains_a = [outcome(lambda s=s: env_a.from_string(s, name="main%d" % i)) for i, s in enumerate(main_src)]
        for i, (a, b) in enumerate(zip(mains_s, mains_a)):
            if a[0] == "err":
                bump(st, "parse_error")
        loop = SimLoop(Rng(sc["sched_seed"], ("sched",)), step_cap=200000, lat_profile=sc["lat"])
        loop_ref[0] = loop
        in_flight = {}
        overlap = [0]
        same_tmpl = [0]
        history = []

        def add(oracle, sig, detail):
            viol.append({"oracle": oracle, "sig": sig, "detail": detail})

        def target(op, side):
            """The template the op works on: ('ok', template) | ('err', cls)."""
            if "main" in op:
                return (mains_s if side == "s" else mains_a)[op["main"]]
            return None

        def load_kwargs(op):
            kw = {"globals": op.get("globals")}
            if op.get("ns") is not None:
                kw[NS_KEY] = op["ns"]
            return kw

        def ns_kwargs(op):
            return {NS_KEY: op["ns"]} if op.get("ns") is not None else {}

        def tmpl_obs(t):
            if not isinstance(t, BoundTemplate):
                return repr(t)[:80]
            return {"name": t.name, "str": ADDR_RE.sub("", str(t)), "path": str(t.path), "globals": dict(t.globals),
                    "matter": dict(t.matter)}

        def sync_op(op, env_s=env_s, mains_s=mains_s):
            data = build_data(sc["datas"][op["data"]], None)
            k = op["op"]

            def get():
                if "main" in op:
                    t = mains_s[op["main"]]
                    if t[0] == "err":
                        raise type(t[1], (Exception,), {})()
                    return t[1]
                return env_s.get_template(op["name"], **load_kwargs(op))
            if k in ("render", "render_named"):
                return outcome(lambda: get().render(**data))
            if k == "load":
                def f():
                    t = get()
                    return [tmpl_obs(t), outcome(lambda: t.render(**data))]
                return outcome(f)
            if k == "analyze":
                return outcome(lambda: canon_analysis(get().analyze(include_partials=op["partials"])))
            if k == "helper":
                def f():
                    r = getattr(get(), op["helper"])(include_partials=op["partials"])
                    return sorted(map(repr, r)) if isinstance(r, (list, set)) else repr(r)
                return outcome(f)
            if k == "env_render":
                return outcome(lambda: env_s.render(main_src[op["main"]], **data))
            if k == "toplevel":
                return outcome(lambda: liquid.render(main_src[op["main"]], **data))
            if k == "analyze_tags":
                return outcome(lambda: _tags(env_s.analyze_tags(op["name"], **ns_kwargs(op))))
            if k == "ctx_load":
                ctx = RenderContext(env_s.from_string(""), globals=data)
                return outcome(lambda: tmpl_obs(ctx.get_template(op["name"])))
            raise AssertionError(k)

        async def async_op(op):
            data = build_data(sc["datas"][op["data"]], loop)
            k = op["op"]

            async def get():
                if "main" in op:
                    t = mains_a[op["main"]]
                    if t[0] == "err":
                        raise type(t[1], (Exception,), {})()
                    return t[1]
                return await env_a.get_template_async(op["name"], **load_kwargs(op))
            if k in ("render", "render_named"):
                async def f():
                    return await (await get()).render_async(**data)
            elif k == "load":
                async def f():
                    t = await get()
                    return [tmpl_obs(t), await outcome_async(t.render_async(**data))]
            elif k == "analyze":
                async def f():
                    return canon_analysis(await (await get()).analyze_async(include_partials=op["partials"]))
            elif k == "helper":
                async def f():
                    r = await getattr(await get(), op["helper"] + "_async")(include_partials=op["partials"])
                    return sorted(map(repr, r)) if isinstance(r, (list, set)) else repr(r)
            elif k == "env_render":
                async def f():
                    return await env_a.render_async(main_src[op["main"]], **data)
            elif k == "toplevel":
                async def f():
                    return await liquid.render_async(main_src[op["main"]], **data)
            elif k == "analyze_tags":
                async def f():
                    return _tags(await env_a.analyze_tags_async(op["name"], **ns_kwargs(op)))
            else:
                async def f():
                    ctx = RenderContext(env_a.from_string(""), globals=data)
                    return tmpl_obs(await ctx.get_template_async(op["name"]))
            return await outcome_async(f())

        nseg = sc.get("segments", 1)

        def part(c, phase, si):
            ops = c.get(phase) or []
            if nseg == 1 or phase != "ops" or si is None:
                return ops
            h = (len(ops) + 1) // 2
            return ops[:h] if si == 0 else ops[h:]

        async def client(c, phase="ops", si=None):
            me = "c%d" % c["id"]
            for op in part(c, phase, si):
                loop.streams[me] = loop.rng.fork("op", op["uid"])
                await loop.latency("think")
                kind = {"render_named": "render", "env_render": "render", "toplevel": "render", "ctx_load": "load",
                        "analyze_tags": "analyze"}.get(op["op"], op["op"])
                bump(st, "reach.op." + kind)
                bump(st, "op." + op["op"])
                tkey = ("main", op["main"]) if "main" in op else ("name", op.get("name"))
                if in_flight:
                    overlap[0] += 1
                    if tkey in in_flight.values():
                        same_tmpl[0] += 1
                in_flight[me] = tkey
                s0, e0 = loop.suspensions, loop.executor_jobs
                inv = loop.event("op.invoke")
                if op.get("cancel_after") is not None:
                    sub = loop.create_task(async_op(op), name="%s.r%d" % (me, op["uid"]))
                    loop.streams[sub.get_name()] = loop.rng.fork("op", op["uid"], "sub")
                    fired = []
                    h = loop.call_later(op["cancel_after"], lambda: (fired.append(1), sub.cancel()))
                    try:
                        got = await sub
                    except asyncio.CancelledError:
                        if not (sub.cancelled() and fired):
                            raise
                        del in_flight[me]
                        bump(st, "fault.cancel_landed")
                        history.append([op["uid"], inv, loop.event("op.cancelled"), "cancelled"])
                        continue
                    finally:
                        h.cancel()
                else:
                    got = await async_op(op)
                ret = loop.event("op.return")
                del in_flight[me]
                if loop.suspensions - s0 > 0 or loop.executor_jobs - e0 > 0:
                    bump(st, "reach.suspended_op")
                want = _norm(sync_op(op), fs.root)
                got = _norm(got, fs.root)
                bump(st, "reach.outcome." + got[0])
                if got[0] == "err" and "name" in op and op["name"] in (sc.get("loader_faults") or {}):
                    bump(st, "fault.loader_error")
                res["states"].append(int(digest((kind, sc["loader"], got[0], got[1] if got[0] == "err" else ""))[:12], 16))
                history.append([op["uid"], inv, ret, got[0], got[1] if got[0] == "err" else digest(got[1])])
                if got != want:
                    self._report(add, sc, op, got, want)
                    return
                if op.get("sync_too") and op["op"] != "toplevel":
                    # the SYNCHRONOUS API on the environment the asynchronous tasks are using, called
                    # while some of them are suspended in the middle of their renders / loads
                    got2 = _norm(sync_op(op, env_a, mains_a), fs.root)
                    bump(st, "reach.sync_call_while_async_suspended" if in_flight else "sync_call_on_async_env")
                    if got2 != want:
                        self._report(add, sc, {**op, "api": "sync call on the environment shared with suspended async tasks"},
                                     got2, want)
                        return

        async def root(si=None):
            ts = [loop.create_task(client(c, "ops", si), name="c%d" % c["id"]) for c in sc["clients"]
                  if part(c, "ops", si)]
            if ts:
                await asyncio.gather(*ts)
            if si == 0:
                return
            if sc.get("override") and not viol:
                loop.event("override")
                for nm in sc["override"]["names"]:
                    rel = nm if "." in nm.rsplit("/", 1)[-1] or not sc["ext"] else nm + sc["ext"]
                    fs.write("hi/" + rel, "OVR<" + sources[nm] + ">", 2)
                bump(st, "reach.override_created")
                ts = [loop.create_task(client(c, "ops2"), name="c%d" % c["id"]) for c in sc["clients"]
                      if c.get("ops2")]
                if ts:
                    await asyncio.gather(*ts)

        tot = {"jobs": 0, "ooo": 0, "susp": 0, "time": 0.0, "steps": 0, "isig": []}

        def account():
            tot["jobs"] += loop.executor_jobs
            tot["ooo"] += loop.executor_out_of_order
            tot["susp"] += loop.suspensions
            tot["time"] += loop.time()
            tot["steps"] += loop.steps
            tot["isig"].append(loop.interleaving_signature())
        try:
            if nseg == 1:
                loop.run_sim(root())
                account()
            else:
                loop.run_sim(root(0))
                account()
                if not viol:
                    if sc.get("edit_between"):
                        # nothing is in flight: some sources are edited in place (new text, later mtime)
                        for nm in sc["edit_between"]:
                            rel = nm if "." in nm.rsplit("/", 1)[-1] or not sc["ext"] else nm + sc["ext"]
                            # the new version may carry an OLDER mtime than the one it replaces (a roll-back,
                            # `cp -p`, a clock stepped back): a change all the same
                            fs.write("root/" + rel, "EDIT<" + sources[nm] + ">", 0.25 if sc.get("edit_older") else 7)
                        bump(st, "reach.edited_between_loops")
                        if sc.get("break_between"):
                            # ... and a folder of templates is replaced by a plain file of the same name
                            import shutil
                            shutil.rmtree(fs.path("root/" + sc["break_between"]), ignore_errors=True)
                            fs.write("root/" + sc["break_between"], "now a file", 9)
                            bump(st, "reach.folder_became_file")
                    prev = loop
                    loop = SimLoop(Rng(sc["sched_seed"], ("sched", 1)), step_cap=200000, lat_profile=sc["lat"])
                    loop.seq = prev.seq
                    loop.log = prev.log
                    loop_ref[0] = loop
                    bump(st, "reach.second_event_loop")
                    loop.run_sim(root(1))
                    account()
        except SimDeadlock:
            add("liveness", "liveness:deadlock", {"log_tail": loop.log[-10:]})
        except SimStepCap:
            raise RuntimeError("HARNESS-TIMEOUT: SimLoop step cap")
        bump(st, "runs.loader." + sc["loader"])
        bump(st, "exec.jobs", tot["jobs"])
        bump(st, "reach.exec_out_of_order", tot["ooo"])
        bump(st, "suspensions", tot["susp"])
        bump(st, "reach.drop_suspension", sum(1 for e in loop.log if e[2].startswith("drop") and e[2].endswith(".suspend")))
        bump(st, "reach.overlap", overlap[0])
        bump(st, "reach.same_template_concurrently", same_tmpl[0])
        res["sim_time"] = tot["time"]
        res["steps"] = tot["steps"]
        res["isig"] = tot["isig"][0] if len(tot["isig"]) == 1 else digest(tot["isig"])
        res["digest"] = digest((loop.log, history))
        res["nontrivial"] = bool(overlap[0] and (tot["susp"] > len(history) or tot["jobs"]))

    def _report(self, add, sc, op, got, want):
        k = {"render_named": "render", "env_render": "render", "toplevel": "render"}.get(op["op"], op["op"])
        if got[0] != want[0] or got[0] == "err":
            sig = "%s:outcome:%s->%s" % (k, want[1] if want[0] == "err" else "ok", got[1] if got[0] == "err" else "ok")
            add("refinement", sig, {"op": op, "sync": _brief(want), "async": _brief(got)})
            return
        if k == "load":
            ga, wa = got[1], want[1]
            if isinstance(ga[0], dict) and isinstance(wa[0], dict):
                diff = sorted(f for f in ga[0] if ga[0][f] != wa[0].get(f))
                if ga[1] != wa[1]:
                    diff.append("render")
            else:
                diff = ["template"]
            add("refinement", "load:%s" % "+".join(diff), {"op": op, "sync": _brief(want), "async": _brief(got)})
            return
        if k == "analyze":
            diff = sorted(f for f in got[1] if got[1][f] != want[1].get(f))
            add("refinement", "analyze:%s" % "+".join(diff), {"op": op, "sync": _brief(want), "async": _brief(got)})
            return
        if k in ("analyze_tags", "ctx_load"):
            add("refinement", "%s:result" % k, {"op": op, "sync": _brief(want), "async": _brief(got)})
            return
        if k == "helper":
            add("refinement", "helper:%s" % op["helper"], {"op": op, "sync": _brief(want), "async": _brief(got)})
            return
        add("refinement", "render:output", {"op": op, "sync": _brief(want), "async": _brief(got)})

    def extra_coverage(self, out):
        entered = sorted(k[5:] for k in out["stats"] if k.startswith("twin."))
        alld = async_defs()
        never = [d for d in alld if d not in set(entered)]
        return {"async_defs_total": len(alld), "async_defs_entered": len([d for d in alld if d in set(entered)]),
                "async_defs_never_entered": never,
                "async_twin_probe": "sys.setprofile on ~4% of runs records every coroutine function of liquid/ entered"}

    # -- minimisation ------------------------------------------------------------
    def shrink(self, sc):
        cl = sc["clients"]
        for i in range(len(cl)):
            if len(cl) > 1:
                yield {**sc, "clients": cl[:i] + cl[i + 1:]}
        for i, c in enumerate(cl):
            for cand in shrink_list(c["ops"]):
                yield {**sc, "clients": cl[:i] + [{**c, "ops": cand}] + cl[i + 1:]}
            for cand in shrink_list(c.get("ops2") or []):
                yield {**sc, "clients": cl[:i] + [{**c, "ops2": cand}] + cl[i + 1:]}
        if sc.get("override") and not any(c.get("ops2") for c in cl):
            yield {**sc, "override": None}
        if sc.get("segments", 1) > 1 and not sc.get("edit_between"):
            yield {**sc, "segments": 1}
        if sc.get("break_between"):
            yield {**sc, "break_between": None}
        if sc.get("edit_between"):
            yield {**sc, "edit_between": None, "break_between": None}
        used_m = sorted({op["main"] for c in cl for op in c["ops"] + (c.get("ops2") or []) if "main" in op})
        for m in used_m:
            for t in G.shrink_tree(sc["mains"][m]):
                yield {**sc, "mains": sc["mains"][:m] + [t] + sc["mains"][m + 1:]}
        for nm in sorted(sc["templates"]):
            for t in G.shrink_tree(sc["templates"][nm]):
                yield {**sc, "templates": {**sc["templates"], nm: t}}
        for j, d in enumerate(sc["datas"]):
            for key in sorted(d["vars"]):
                nv = {k: v for k, v in d["vars"].items() if k != key}
                yield {**sc, "datas": sc["datas"][:j] + [{**d, "vars": nv, "drops": [x for x in d["drops"] if x != key]}]
                       + sc["datas"][j + 1:]}
            if d["drops"]:
                yield {**sc, "datas": sc["datas"][:j] + [{**d, "drops": []}] + sc["datas"][j + 1:]}
        r = sc["recipe"]
        if r["mode"] != "strict":
            yield {**sc, "recipe": {**r, "mode": "strict"}}
        if r["undefined"] != "default":
            yield {**sc, "recipe": {**r, "undefined": "default"}}
        if r["autoescape"]:
            yield {**sc, "recipe": {**r, "autoescape": False}}
        if any(v is not None and v != 30 for v in r["limits"].values()):
            yield {**sc, "recipe": {**r, "limits": {"loop_iteration_limit": None, "output_stream_limit": None,
                                                      "local_namespace_limit": None, "context_depth_limit": 30}}}
        for f, v in sorted(r["flags"].items()):
            if v:
                yield {**sc, "recipe": {**r, "flags": {**r["flags"], f: False}}}
        if sc["loader"] != "dict":
            yield {**sc, "loader": "dict"}
        if sc["lat"]["zero_p"] != 1.0:
            yield {**sc, "lat": {**sc["lat"], "zero_p": 1.0, "stall_p": 0.0}}
        if sc.get("profile"):
            yield {**sc, "profile": False}


def _tags(a):
    """TagAnalysis -> comparable structure."""
    out = {}
    for k, v in sorted(vars(a).items()):
        if k.startswith("_") or k in ("env", "tokens", "inner_tags", "template_name", "name"):
            continue   # private fields hold sets (hash-order dependent repr)
        out[k] = repr(v)
    return out


def _norm(o, root):
    """Blank out memory addresses (objects without __str__ print theirs; not this property's
    subject) and the sandbox's random directory name."""
    if isinstance(o, str):
        if root in o:
            o = o.replace(root, "@ABS@")
        return ADDR_RE.sub("", o) if " at 0x" in o else o
    if isinstance(o, (list, tuple)):
        return type(o)(_norm(x, root) for x in o)
    if isinstance(o, dict):
        return {k: _norm(v, root) for k, v in o.items()}
    return o


def _brief(o):
    s = repr(o)
    return s if len(s) < 900 else s[:900] + "..."


if __name__ == "__main__":
    sys.exit(driver.main(C01()))

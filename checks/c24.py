"""C24 - LRU caches behave as bounded least-recently-used maps.

Two configurations, chosen per run by the seed:

* ``seq``  - one caller: seeded operation sequences against LRUCache and
  ThreadSafeLRUCache, every return value / exception and the full MRU->LRU
  listing compared with ModelLRU after every operation.
* ``conc`` - 2..16 simulated threads on one ThreadSafeLRUCache under the baton
  scheduler (pre-emption at every line - or, in half of the runs, every bytecode
  instruction - of liquid/utils/lru_cache.py and at every lock operation; listings
  consumed one ``next()`` per quantum).
  Oracles: never fails, capacity invariant whenever the lock is free, no
  deadlock, linearizability of the invoke/return history against ModelLRU
  (a listing linearises as one atomic snapshot between its invocation and its
  last ``next()``), final contents equal the linearised model state.
"""
from __future__ import annotations

import os
import sys
import threading

sys.path.insert(0, os.path.dirname(os.path.dirname(os.path.abspath(__file__))))

from simkit import driver  # noqa: E402
from simkit.driver import bump, new_result, shrink_list  # noqa: E402
from simkit.rng import Rng, digest  # noqa: E402
from simkit.threads import (SimCondition, SimLock, SimRLock, SimThreads, restore_locks,  # noqa: E402
                            simulate_locks)

import liquid.utils.lru_cache as lru_mod  # noqa: E402

LISTINGS = ("iter", "keys", "values", "items")
MISSING = "<missing>"


# ---------------------------------------------------------------------------
# reference model


class ModelLRU:
    """Sequential reference: list of (key, value), most recent first."""

    def __init__(self, capacity, items=()):
        self.capacity = capacity
        self.items = list(items)

    def state(self):
        return tuple(self.items)

    def _find(self, k):
        for i, (kk, _) in enumerate(self.items):
            if kk == k:
                return i
        return -1

    def apply(self, op):
        """Return the outcome ("ok", value) | ("err", class name)."""
        kind = op[0]
        if kind == "set":
            i = self._find(op[1])
            if i >= 0:
                del self.items[i]
            elif len(self.items) >= self.capacity:
                self.items.pop()
            self.items.insert(0, (op[1], op[2]))
            return ("ok", None)
        if kind in ("getitem", "get", "getd"):
            i = self._find(op[1])
            if i < 0:
                if kind == "getitem":
                    return ("err", "KeyError")
                return ("ok", None if kind == "get" else op[2])
            kv = self.items.pop(i)
            self.items.insert(0, kv)
            return ("ok", kv[1])
        if kind == "del":
            i = self._find(op[1])
            if i < 0:
                return ("err", "KeyError")
            del self.items[i]
            return ("ok", None)
        if kind == "contains":
            return ("ok", self._find(op[1]) >= 0)
        if kind == "len":
            return ("ok", len(self.items))
        if kind == "walk":
            # an open listing consumed item by item and possibly abandoned: what was seen is a
            # prefix (op[2] items, or all) of one atomic snapshot
            full = self.apply([op[1]])[1]
            return ("ok", full if op[2] is None else full[:op[2]])
        if kind in ("iter", "keys"):
            return ("ok", [k for k, _ in self.items])
        if kind == "values":
            return ("ok", [v for _, v in self.items])
        if kind == "items":
            return ("ok", [[k, v] for k, v in self.items])
        raise AssertionError(kind)


# Key objects: the scenario names keys by small integers; the objects handed to the cache are made
# afresh for every operation in the run's key style, so that two operations on "the same key" use
# EQUAL BUT DISTINCT objects (a map compares keys with ==, never with `is`).
class HK:
    """A key whose __hash__ and __eq__ are Python code: the interpreter may switch threads inside
    them, i.e. in the middle of whatever dictionary operation is hashing or comparing the key."""
    __slots__ = ("k",)
    hook = None          # set per run: called at every hash / comparison (a pre-emption point)

    def __init__(self, k):
        self.k = k

    def __hash__(self):
        if HK.hook is not None:
            HK.hook("key.hash")
        return hash(self.k)

    def __eq__(self, other):
        if HK.hook is not None:
            HK.hook("key.eq")
        return isinstance(other, HK) and other.k == self.k

    def __repr__(self):
        return "HK(%r)" % self.k


KEY_STYLES = {
    "int": (lambda k: k, lambda x: x),                                   # small ints: interned, identical
    "tuple": (lambda k: tuple([k]), lambda x: x[0]),
    "str": (lambda k: "key-%d" % k, lambda x: int(x[4:])),
    "float": (lambda k: float(k) + 0.0, lambda x: int(x)),
    "bigint": (lambda k: int("1000000") + k, lambda x: x - 1000000),
    "hashed": (lambda k: HK(k), lambda x: x.k),
}
_KEYS = {"style": "int", "pool": {}, "n": 0, "seed": 0}


def mk(k):
    """One of two equal-but-distinct objects kept per key for the run (seeded choice): an operation may
    use the very object an earlier one used, or its equal twin."""
    pool = _KEYS["pool"].get(k)
    if pool is None:
        make = KEY_STYLES[_KEYS["style"]][0]
        pool = _KEYS["pool"][k] = [make(k), make(k)]
    _KEYS["n"] += 1
    x = (_KEYS["seed"] + _KEYS["n"]) * 2654435761 & 0xFFFFFFFF
    return pool[(x >> 13) & 1]


def unk(x):
    try:
        return KEY_STYLES[_KEYS["style"]][1](x)
    except Exception:  # noqa: BLE001 - not one of ours: report it as it is
        return repr(x)


class V:
    """A stored value with a finalizer that looks at the cache it was evicted from (a resource that
    logs the cache size when it is released).  The checker keeps no reference to it, so it dies -
    inside whatever cache operation drops it - the moment the cache lets go of it."""
    __slots__ = ("label", "run")

    def __init__(self, label):
        self.label = label
        self.run = _KEYS.get("run")

    def __del__(self):
        c = _KEYS.get("cache")
        # only while the run that created it is still going, and only in the thread the simulator has
        # scheduled (a value collected late, by the cyclic collector of some later run, stays silent)
        sim = SimLock.sim
        if c is not None and self.run is not None and self.run is _KEYS.get("run") and (
                sim is None or (sim.cur is not None and sim.cur.thread is threading.current_thread())):
            try:
                len(c), bool(len(c))
                other = _KEYS.get("other")
                if other is not None:      # a second, independent cache with its own lock
                    0 in other, other.get(0)
            except BaseException as e:  # noqa: BLE001 - reported by the run, then re-raised (and ignored by Python)
                _KEYS["del_error"] = type(e).__name__
                raise


def wrapv(v):
    return V(v) if _KEYS.get("values") == "finalizing" and isinstance(v, str) else v


def lbl(x):
    return x.label if isinstance(x, V) else x


def apply_real(cache, op, step=None):
    """Apply op to the real cache.  ``step`` is called between next() calls."""
    kind = op[0]
    try:
        if kind == "set":
            cache[mk(op[1])] = wrapv(op[2])
            return ("ok", None)
        if kind == "getitem":
            return ("ok", lbl(cache[mk(op[1])]))
        if kind == "get":
            return ("ok", lbl(cache.get(mk(op[1]))))
        if kind == "getd":
            return ("ok", lbl(cache.get(mk(op[1]), op[2])))
        if kind == "del":
            del cache[mk(op[1])]
            return ("ok", None)
        if kind == "contains":
            return ("ok", mk(op[1]) in cache)
        if kind == "len":
            return ("ok", len(cache))
        if kind in LISTINGS:
            it = iter(cache) if kind == "iter" else getattr(cache, kind)()
            out = []
            while True:
                if step is not None:
                    step()
                try:
                    x = next(it)
                except StopIteration:
                    break
                out.append([unk(x[0]), lbl(x[1])] if kind == "items" else (lbl(x) if kind == "values" else unk(x)))
            return ("ok", out)
    except KeyError:
        return ("err", "KeyError")
    except driver_abort():
        raise
    except Exception as e:  # anything else is an outcome to be judged
        return ("err", type(e).__name__)
    raise AssertionError(kind)


def driver_abort():
    from simkit.threads import SimAbort
    return SimAbort


# ---------------------------------------------------------------------------
# linearizability (Wing & Gong search with memoisation)


def linearize(hist, capacity, node_budget=300000):
    """hist: list of dict(inv, ret, op, out).  Return (True, final_state),
    (False, None) or (None, None) when the node budget is exhausted."""
    n = len(hist)
    full = (1 << n) - 1
    memo = set()
    nodes = 0
    stack = [(0, ())]
    while stack:
        mask, state = stack.pop()
        if mask == full:
            return True, state
        if (mask, state) in memo:
            continue
        memo.add((mask, state))
        nodes += 1
        if nodes > node_budget:
            return None, None
        pend = [i for i in range(n) if not mask >> i & 1]
        min_ret = min(hist[i]["ret"] for i in pend)
        for i in pend:
            h = hist[i]
            if h["inv"] > min_ret:
                continue
            m = ModelLRU(capacity, state)
            if m.apply(h["op"]) == tuple(h["out"]):
                stack.append((mask | 1 << i, m.state()))
    return False, None


# ---------------------------------------------------------------------------


class C24:
    PROP = "C24"
    LEVEL = "exploration"
    TIERS = {
        "quick": {"runs": 24000, "budget_s": 40, "chunk": 100, "determinism_runs": 48},
        "thorough": {"runs": 2400000, "budget_s": 600, "chunk": 400, "determinism_runs": 256,
                     "minimise_s": 90},
    }
    RULE = ("Each run is one seeded scenario: 'seq' = an operation sequence (<=60 ops, keys 0-4, "
            "capacity -1..4, unique stored values) on LRUCache or ThreadSafeLRUCache checked "
            "op-by-op against ModelLRU; 'conc' = 2-16 simulated threads x 1-8 ops on one "
            "ThreadSafeLRUCache under the seeded baton scheduler. Non-trivial = a conc run with "
            ">=1 context switch inside an operation or >=1 contended lock acquisition, or a seq "
            "run that evicted at least once; distinct = hash(scenario, interleaving signature).")
    STATE_MEASURE = ("seq: distinct (class, capacity, MRU->LRU key order, op kind, key present?) "
                     "tuples reached; conc: distinct thread-switch traces are counted as "
                     "interleaving signatures")
    COMPONENTS = {
        "real": ["liquid/utils/lru_cache.py LRUCache and ThreadSafeLRUCache from /repo's working tree",
                 "collections.OrderedDict", "real threading.Thread objects (one per simulated client)"],
        "stub": ["thread scheduler (baton passing; seeded choice at every line of lru_cache.py, lock "
                 "operation, op boundary and listing next())",
                 "liquid.utils.lru_cache.Lock replaced by simkit.threads.SimLock for conc runs"],
    }
    ASSUMPTIONS = [
        "C-level OrderedDict operations are atomic (true under the GIL; free-threaded CPython is out of scope)",
        "pre-emption happens at every bytecode instruction (half of the runs) or every line boundary (the other half) of lru_cache.py and at lock operations; never inside a C call",
        "a listing may linearise anywhere between its invocation and its last next()",
    ]
    REQUIRED_REACH = ["reach.finalizing_values", "reach.seq.evict", "reach.conc.switch_inside_op", "reach.conc.lock_contended",
                      "reach.conc.listing_overlaps_writer", "reach.lin.checked",
                      "reach.conc.walk_with_inner_ops", "reach.conc.listing_abandoned"]

    def extra_coverage(self, out):
        # finite space of the sequential part: (class, capacity 1..4, MRU->LRU arrangement of <=capacity
        # of the 5 keys, operation kind, key present?) - 2 * (96 + 436 + 1456 + 3496) feasible tuples
        total = 2 * sum(11 + (sum(_perm(5, k) for k in range(cap + 1)) - 1) * 17 for cap in (1, 2, 3, 4))
        reached = len(out["states"])
        return {"seq_state_op_pairs_total": total, "seq_state_op_pairs_reached": reached,
                "seq_state_op_pairs_fraction": round(reached / total, 4),
                "exhaustive": False,
                "seq_space_note": "seeded search, not enumeration: the fraction of the finite sequential "
                                  "(state, operation) space reached by this run is reported so the gap is visible"}

    # -- generation ------------------------------------------------------------
    def gen(self, run_seed, tier):
        rng = Rng(run_seed, ("gen",))
        conc = rng.chance(0.7)
        nkeys = rng.weighted([(1, 1), (2, 2), (3, 3), (4, 3), (5, 4)])
        if not conc:
            cap = rng.weighted([(-1, 1), (0, 1), (1, 6), (2, 8), (3, 8), (4, 6)])
            cls = rng.choice(["LRUCache", "ThreadSafeLRUCache"])
            nops = rng.randint(1, 60)
            ops = [self._gen_op(rng, nkeys, ("s", i)) for i in range(nops)]
            for i in range(len(ops)):
                if rng.chance(0.06):
                    # other dict-style ways to insert, should the class have (or grow) them: whatever
                    # their recency rule, the map stays bounded and a present key keeps its value
                    ops[i] = [rng.choice(["x:setdefault", "x:update"]), rng.randrange(nkeys), "vx.%d" % i]
            return {"config": "seq", "cls": cls, "capacity": cap, "ops": ops,
                    "key_style": rng.choice(sorted(KEY_STYLES)),
                    "values": "finalizing" if rng.chance(0.15) else "plain",
                    "observe_every": rng.choice([1, 1, 3, 7, None])}
        cap = rng.randint(1, 4)
        nthreads = rng.weighted([(2, 6), (3, 6), (4, 4), (6, 2), (8, 2), (12, 1), (16, 1)])
        maxops = 8 if nthreads <= 3 else (5 if nthreads <= 6 else 2)
        profile = rng.choice(["conc-mixed", "conc-mixed", "listing-heavy", "write-heavy"])
        threads = []
        for t in range(nthreads):
            n = rng.randint(1, maxops)
            threads.append({"id": t, "ops": [self._gen_op(rng, nkeys, (t, i), profile) for i in range(n)]})
        prefill = [self._gen_op(rng, nkeys, ("p", i), "write-only") for i in range(rng.randint(0, 4))]
        return {"config": "conc", "capacity": cap, "threads": threads, "prefill": prefill,
                "switch_p": rng.choice([0.05, 0.3, 0.7, 1.0]),
                "sched_seed": rng.randrange(1 << 30),
                "granularity": rng.choice(["line", "opcode"]),
                "key_style": rng.choice(sorted(KEY_STYLES)),
                "values": "finalizing" if rng.chance(0.15) else "plain"}

    def _gen_op(self, rng, nkeys, tag, profile="mixed"):
        k = rng.randrange(nkeys)
        val = "v" + ".".join(str(x) for x in tag)
        if rng.chance(0.08):
            # falsy values are values like any other ("returns the most recently stored value for a
            # present key"): None, 0, "", False and 0.0 must come back, not the default
            val = rng.choice([None, 0, "", False, 0.0])
        if profile == "write-only":
            return ["set", k, val]
        table = {
            "mixed": [("set", 8), ("getitem", 3), ("get", 3), ("getd", 1), ("del", 2), ("contains", 2),
                      ("len", 1), ("iter", 1), ("keys", 2), ("values", 1), ("items", 2)],
            "listing-heavy": [("set", 6), ("get", 2), ("del", 1), ("iter", 2), ("keys", 3),
                              ("values", 2), ("items", 3), ("walk", 4)],
            "conc-mixed": [("set", 8), ("getitem", 3), ("get", 3), ("getd", 1), ("del", 2), ("contains", 2),
                           ("len", 1), ("iter", 1), ("keys", 2), ("values", 1), ("items", 2), ("walk", 2)],
            "write-heavy": [("set", 10), ("del", 3), ("getitem", 2), ("get", 2), ("keys", 1), ("len", 1)],
        }[profile]
        kind = rng.weighted(table)
        if kind == "walk":
            # use the cache while one of its listings is still open in the same thread
            # (`for k in cache: cache[k]`), and/or abandon the listing half way
            inner = [self._gen_op(rng, nkeys, tag + ("w%d" % j,), "mixed") for j in range(rng.randint(0, 3))]
            inner = [o for o in inner if o[0] != "walk"]
            return ["walk", rng.choice(list(LISTINGS)), rng.choice([None, None, 1, 2]), inner]
        if kind == "set":
            return ["set", k, val]
        if kind == "getd":
            return ["getd", k, "d" + ".".join(str(x) for x in tag)]
        if kind in ("getitem", "get", "del", "contains"):
            return [kind, k]
        return [kind]

    # -- execution ---------------------------------------------------------------
    def run(self, sc):
        _KEYS.update(style=sc.get("key_style", "int"), pool={}, n=0,
                     seed=sc.get("sched_seed", len(sc.get("ops", ()))), values=sc.get("values", "plain"),
                     cache=None, del_error=None, other=None, run=object())
        try:
            res = self._run_seq(sc) if sc["config"] == "seq" else self._run_conc(sc)
            if _KEYS.get("del_error"):
                res["violations"].append({
                    "oracle": "never_fails", "sig": "finalizer:%s" % _KEYS["del_error"],
                    "detail": {"note": "a stored value's finalizer called len(cache) while the cache was dropping it "
                                       "(eviction, overwrite or delete) and could not"}})
            if sc.get("values") == "finalizing":
                bump(res["stats"], "reach.finalizing_values")
            return res
        finally:
            _KEYS.update(style="int", pool={}, n=0, values="plain", cache=None, del_error=None, other=None, run=None)

    def _run_seq(self, sc):
        res = new_result()
        st = res["stats"]
        cls = getattr(lru_mod, sc["cls"])
        cap = sc["capacity"]
        log = []
        # the sequential part also runs on the simulated lock: a lock left held by an earlier
        # operation (an exception path without release) then raises instead of hanging the run
        saved_lock = lru_mod.Lock
        lru_mod.Lock = SimLock
        SimLock.sim = None
        self._seq_undo = []
        try:
            return self._run_seq_body(sc, res, st, cls, cap, log)
        finally:
            lru_mod.Lock = saved_lock
            restore_locks(self._seq_undo)

    def _run_seq_body(self, sc, res, st, cls, cap, log):
        try:
            cache = cls(cap)
            _KEYS["cache"] = cache
            self._seq_undo = simulate_locks(cache)
            ctor = ("ok", None)
        except ValueError:
            ctor = ("err", "ValueError")
        except Exception as e:
            ctor = ("err", type(e).__name__)
        want = ("err", "ValueError") if cap < 1 else ("ok", None)
        bump(st, "seq.runs")
        if ctor != want:
            res["violations"].append({"oracle": "seq.constructor", "sig": f"seq:{sc['cls']}:ctor",
                                      "detail": {"capacity": cap, "got": ctor, "want": want}})
        if ctor[0] != "ok" or cap < 1:
            bump(st, "reach.seq.bad_capacity")
            res["digest"] = digest(("seq", ctor))
            res["isig"] = digest(("seq-ctor", cap))
            return res
        model = ModelLRU(cap)
        evicted = False
        for i, op in enumerate(sc["ops"]):
            if op[0].startswith("x:"):
                meth = getattr(cache, op[0][2:], None)
                if meth is None:
                    continue        # the class has no such method (true of the current code)
                bump(st, "seq.extra_mutator." + op[0][2:])
                present = model._find(op[1])
                try:
                    ret = meth(mk(op[1]), op[2]) if op[0] == "x:setdefault" else meth({mk(op[1]): op[2]})
                    n = len(cache)
                    now = lbl(cache.get(mk(op[1])))
                except Exception as e:  # noqa: BLE001
                    res["violations"].append({"oracle": "seq.result", "sig": f"seq:{sc['cls']}:{op[0]}:raised",
                                              "detail": {"step": i, "op": op, "raised": type(e).__name__}})
                    break
                want_now = model.items[present][1] if (present >= 0 and op[0] == "x:setdefault") else op[2]
                if n > cap or now != want_now:
                    res["violations"].append({"oracle": "seq.capacity" if n > cap else "seq.result",
                                              "sig": f"seq:{sc['cls']}:{op[0]}:{'capacity' if n > cap else 'value'}",
                                              "detail": {"step": i, "op": op, "len": n, "capacity": cap, "value_now": now,
                                                         "want": want_now, "returned": lbl(ret)}})
                    break
                # recency rule of such a method is the implementation's business: adopt its contents
                model.items = [(unk(k), lbl(v)) for k, v in cache.items()]
                continue
            before = len(model.items)
            present = len(op) > 1 and model._find(op[1]) >= 0
            res["states"].append(int(digest((sc["cls"], cap, tuple(k for k, _ in model.items), op[0],
                                             present))[:12], 16))
            want = model.apply(op)
            if op[0] == "set" and before == cap and not present:
                evicted = True
                bump(st, "reach.seq.evict")
            got = apply_real(cache, op)
            bump(st, "seq.ops")
            log.append((op, got))
            if got[0] == "err" and got[1] == "SimSelfDeadlock":
                res["violations"].append({
                    "oracle": "seq.deadlock", "sig": f"seq:{sc['cls']}:deadlock",
                    "detail": {"step": i, "op": op, "note": "the lock was left held by an earlier operation"}})
                break
            if tuple(got) != tuple(want):
                res["violations"].append({
                    "oracle": "seq.result", "sig": f"seq:{sc['cls']}:{op[0]}:result",
                    "detail": {"step": i, "op": op, "got": got, "want": want}})
                break
            # the checker's own look at the contents is an operation too (a listing): in some runs it
            # happens only every few operations or at the very end, so that state an implementation
            # defers until "the next listing" is not flushed after every single step
            every = sc.get("observe_every", 1)
            last = i == len(sc["ops"]) - 1
            if not last and (every is None or (i + 1) % every):
                continue
            listing = apply_real(cache, ["items"])
            ln = apply_real(cache, ["len"])
            mlisting = ("ok", [[k, v] for k, v in model.items])
            if tuple(listing) != mlisting or ln != ("ok", len(model.items)):
                res["violations"].append({
                    "oracle": "seq.contents", "sig": f"seq:{sc['cls']}:{op[0]}:contents",
                    "detail": {"step": i, "op": op, "contents": listing, "len": ln,
                               "want": mlisting}})
                break
            if ln[1] > cap:
                res["violations"].append({
                    "oracle": "seq.capacity", "sig": f"seq:{sc['cls']}:{op[0]}:capacity",
                    "detail": {"step": i, "op": op, "len": ln, "capacity": cap}})
                break
        res["digest"] = digest(log)
        res["isig"] = digest(("seq", sc["cls"], cap, [o[0] for o in sc["ops"]]))
        res["nontrivial"] = evicted
        res["steps"] = len(log)
        return res

    def _run_conc(self, sc):
        res = new_result()
        st = res["stats"]
        cap = sc["capacity"]
        rng = Rng(sc["sched_seed"], ("sched",))
        bump(st, "conc.runs")
        inv_bad = []
        state = {"cache": None, "in_op": 0}

        def on_point(sim, site):
            c = state["cache"]
            if c is None:
                return
            lock = getattr(c, "_lock", None)
            if lock is not None and getattr(lock, "owner", None) is None:
                od = getattr(c, "_cache", None)
                if od is None:
                    bump(st, "conc.invariant_skipped")
                    return
                bump(st, "conc.invariant_checks")
                if len(od) > cap and not inv_bad:
                    inv_bad.append({"len": len(od), "capacity": cap, "site": site, "seq": sim.seq})

        sim = SimThreads(rng, switch_p=sc["switch_p"], trace_files=("liquid/utils/lru_cache.py",),
                         step_cap=200000, on_point=on_point, granularity=sc.get("granularity", "line"))
        bump(st, "conc.granularity." + sc.get("granularity", "line"))
        saved = lru_mod.Lock
        lru_mod.Lock = SimLock
        saved_other = {n: getattr(lru_mod, n) for n in ("RLock", "Condition") if hasattr(lru_mod, n)}
        for n in saved_other:      # primitives a future version may import: simulated likewise
            setattr(lru_mod, n, {"RLock": SimRLock, "Condition": SimCondition}[n])
        SimLock.sim = None
        try:
            cache = lru_mod.ThreadSafeLRUCache(cap)
            _KEYS["cache"] = cache
            undo_locks = simulate_locks(cache)     # locks created elsewhere than in __init__ (class level, import time)
            if sc.get("values") == "finalizing":
                other = lru_mod.ThreadSafeLRUCache(2)
                undo_locks += simulate_locks(other)
                other[0] = "o"
                _KEYS["other"] = other
            hist = []
            for op in sc["prefill"]:
                out = apply_real(cache, op)
                hist.append({"t": "pre", "inv": sim.next_seq(), "ret": sim.next_seq(), "op": op, "out": out})
            state["cache"] = cache
            SimLock.sim = sim
            if sc.get("key_style") == "hashed":
                def key_hook(site):
                    if sim.cur is not None and threading.current_thread() is sim.cur.thread:
                        sim.point(site)
                HK.hook = key_hook
            listing_overlap = [0]
            active_listings = [0]
            switch_inside = [0]

            keep = []   # abandoned listings stay referenced until the run is over

            def walk(tid, op):
                _, kind, stop, inner = op
                inv = sim.next_seq()
                active_listings[0] += 1
                seen, out = [], None
                try:
                    try:
                        it = iter(cache) if kind == "iter" else getattr(cache, kind)()
                        keep.append(it)
                        todo = list(inner)
                        while stop is None or len(seen) < stop:
                            sim.point("next")
                            try:
                                x = next(it)
                            except StopIteration:
                                break
                            seen.append([unk(x[0]), lbl(x[1])] if kind == "items" else (lbl(x) if kind == "values" else unk(x)))
                            if todo:
                                iop = todo.pop(0)
                                i0 = sim.next_seq()
                                iout = apply_real(cache, iop)
                                hist.append({"t": tid, "inv": i0, "ret": sim.next_seq(), "op": iop, "out": iout})
                        out = ("ok", seen)
                    except driver_abort():
                        raise
                    except Exception as e:  # noqa: BLE001 - an outcome to be judged
                        out = ("err", type(e).__name__)
                finally:
                    active_listings[0] -= 1
                n_seen = None if (stop is None or len(seen) < stop) else stop
                hist.append({"t": tid, "inv": inv, "ret": sim.next_seq(), "op": ["walk", kind, n_seen], "out": out})
                bump(st, "reach.conc.walk_with_inner_ops" if inner else "conc.walk_plain")
                if n_seen is not None:
                    bump(st, "reach.conc.listing_abandoned")

            def client(tid, ops):
                def body():
                    for op in ops:
                        sim.point("op")
                        if op[0] == "walk":
                            walk(tid, op)
                            continue
                        inv = sim.next_seq()
                        sw0 = sim.switches
                        if op[0] in LISTINGS:
                            active_listings[0] += 1

                            def step():
                                sim.point("next")
                        else:
                            step = None
                            if op[0] in ("set", "del") and active_listings[0]:
                                listing_overlap[0] += 1
                        try:
                            out = apply_real(cache, op, step)
                        finally:
                            if op[0] in LISTINGS:
                                active_listings[0] -= 1
                        ret = sim.next_seq()
                        if sim.switches != sw0:
                            switch_inside[0] += 1
                        hist.append({"t": tid, "inv": inv, "ret": ret, "op": op, "out": out})
                return body

            for th in sc["threads"]:
                sim.spawn(f"c{th['id']}", client(th["id"], th["ops"]))
            sim.run()
            SimLock.sim = None
            HK.hook = None
            state["cache"] = None
            del keep[:]
        finally:
            lru_mod.Lock = saved
            for n, v in saved_other.items():
                setattr(lru_mod, n, v)
            SimLock.sim = None
            HK.hook = None
            try:
                restore_locks(undo_locks)
            except NameError:
                pass

        res["steps"] = sim.steps
        res["isig"] = digest(sim.trace)
        bump(st, "conc.switches", sim.switches)
        bump(st, "reach.conc.lock_contended", sim.contended)
        bump(st, "reach.conc.switch_inside_op", switch_inside[0])
        bump(st, "reach.conc.listing_overlaps_writer", listing_overlap[0])
        bump(st, "conc.threads.%02d" % len(sc["threads"]))
        res["nontrivial"] = bool(switch_inside[0] or sim.contended)

        herr = [t for t in sim.threads if t.error is not None]
        if herr:
            raise RuntimeError("client thread harness error") from herr[0].error
        if sim.aborted == "STEP-CAP":
            raise RuntimeError("HARNESS-TIMEOUT: step cap reached in SimThreads")
        if sim.aborted == "DEADLOCK":
            res["violations"].append({"oracle": "conc.deadlock", "sig": "conc:deadlock",
                                      "detail": {"trace_tail": sim.trace[-20:]}})
            res["digest"] = digest(("deadlock", sim.trace))
            return res

        hist.sort(key=lambda h: h["inv"])
        res["digest"] = digest(([(h["t"], h["inv"], h["ret"], h["op"], h["out"]) for h in hist], sim.trace))
        # oracle 1: never fails
        failed = False
        for h in hist:
            out = h["out"]
            if out[0] == "err" and not (out[1] == "KeyError" and h["op"][0] in ("getitem", "del")):
                failed = True
                res["violations"].append({
                    "oracle": "conc.never_fails", "sig": f"conc:never-fails:{h['op'][0]}:{out[1]}",
                    "detail": {"thread": h["t"], "op": h["op"], "raised": out[1],
                               "history": [(x["t"], x["inv"], x["ret"], x["op"], x["out"]) for x in hist]}})
                break
        # oracle 2: capacity whenever the lock is free
        if inv_bad:
            res["violations"].append({"oracle": "conc.capacity", "sig": "conc:capacity", "detail": inv_bad[0]})
        if failed:
            return res
        # oracle 3+4: linearizability incl. final contents
        final = apply_real(cache, ["items"])
        fl = apply_real(cache, ["len"])
        s = sim.next_seq()
        # len() is not among the guarantees the statement lists for concurrent use
        # beyond "holds at most its capacity": bound-check it, do not linearise it
        for h in hist:
            if h["op"][0] == "len" and not (h["out"][0] == "ok" and 0 <= h["out"][1] <= cap):
                res["violations"].append({"oracle": "conc.capacity", "sig": "conc:len-out-of-range",
                                          "detail": {"op": h["op"], "out": h["out"], "capacity": cap}})
        hist = [h for h in hist if h["op"][0] != "len"]
        full = hist + [{"t": "final", "inv": s, "ret": s + 1, "op": ["items"], "out": final},
                       {"t": "final", "inv": s + 2, "ret": s + 3, "op": ["len"], "out": fl}]
        if len(full) <= 40:
            ok, _ = linearize(full, cap)
            if ok is None:
                bump(st, "lin.undecided")
            else:
                bump(st, "reach.lin.checked")
                bump(st, "lin.ops", len(full))
                if not ok:
                    res["violations"].append({
                        "oracle": "conc.linearizability", "sig": "conc:not-linearizable",
                        "detail": {"capacity": cap,
                                   "history": [(x["t"], x["inv"], x["ret"], x["op"], x["out"]) for x in full]}})
        else:
            bump(st, "lin.skipped_too_long")
        return res

    # -- minimisation ------------------------------------------------------------
    def shrink(self, sc):
        if sc.get("key_style", "int") != "int":
            yield {**sc, "key_style": "int"}
        if sc["config"] == "seq":
            for ops in shrink_list(sc["ops"]):
                yield {**sc, "ops": ops}
            return
        th = sc["threads"]

        def alts(c):
            # the same smaller workload under a few other schedules
            yield c
            for d in range(1, 6):
                yield {**c, "sched_seed": (c["sched_seed"] * 31 + d) % (1 << 30)}
            for p in (1.0, 0.3):
                if p != c["switch_p"]:
                    yield {**c, "switch_p": p}

        for i in range(len(th)):  # drop whole threads
            if len(th) > 1:
                yield from alts({**sc, "threads": th[:i] + th[i + 1:]})
        for i, t in enumerate(th):  # drop ops inside threads
            for cand in shrink_list(t["ops"], 1):
                yield from alts({**sc, "threads": th[:i] + [{**t, "ops": cand}] + th[i + 1:]})
        for cand in shrink_list(sc["prefill"]):
            yield from alts({**sc, "prefill": cand})
        if sc["capacity"] > 1:
            yield from alts({**sc, "capacity": sc["capacity"] - 1})
        allops = [op for t in th for op in t["ops"]] + sc["prefill"]
        ks = sorted({op[1] for op in allops if len(op) > 1 and isinstance(op[1], int)})
        if ks and ks != list(range(len(ks))):  # re-key to fewer keys
            m = {k: i for i, k in enumerate(ks)}

            def rk(ops):
                return [[op[0], m[op[1]]] + op[2:] if len(op) > 1 and isinstance(op[1], int) else op
                        for op in ops]
            yield {**sc, "threads": [{**t, "ops": rk(t["ops"])} for t in th], "prefill": rk(sc["prefill"])}


def _perm(n, k):
    r = 1
    for i in range(k):
        r *= n - i
    return r


def _main():
    sys.exit(driver.main(C24()))


if __name__ == "__main__":
    _main()

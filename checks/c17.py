"""C17 - Rendering is pure and independent of history.

A history machine drives a pool of environments, templates and data through
sync renders, concurrent ``render_async`` tasks (suspending in async drops and
the custom loader), re-parses, implicit-environment renders, wall-clock
advances (microseconds..years), aborted renders (limits, strict undefined,
failing drops, missing partials) and cancellation of in-flight renders.

Oracles:
 1. data immutability   - deep type-tagged fingerprint of the data handed to a
                          render is equal before and after (also aborted/cancelled);
 2. template / environment immutability - structural fingerprint of the AST and of
                          env.tags / filters / globals equal before and after;
 3. history independence - EVERY render outcome in the history equals the outcome of
                          the same (recipe, sources, data, SimClock value) in the
                          pristine fork, a fresh process with no history at all;
 4. interleaving independence - concurrent render_async outcomes are compared with
                          their solo (pristine) outcome by the same rule.
"""
from __future__ import annotations

import asyncio
import os
from collections.abc import Mapping
import re
import sys
import warnings

sys.path.insert(0, os.path.dirname(os.path.dirname(os.path.abspath(__file__))))

from simkit import clock, driver, fork  # noqa: E402
from simkit.driver import bump, new_result, shrink_list  # noqa: E402
from simkit.loop import SimDeadlock, SimLoop, SimStepCap  # noqa: E402
from simkit.rng import Rng, digest  # noqa: E402
from workload import gen as G  # noqa: E402
from workload.runtime import (NS_KEY, SimDrop, StaticSimLoader, build_data, fingerprint,  # noqa: E402
                              outcome, outcome_async)

import liquid  # noqa: E402
import liquid.builtin.loaders.file_system_loader as fsl_mod  # noqa: E402
from simkit.fs import FaultPlan, FaultyPath, SimFS  # noqa: E402
from liquid import (BoundTemplate, CachingChoiceLoader, CachingDictLoader, ChoiceLoader,  # noqa: E402
                    DictLoader, Environment)
from liquid.builtin.loaders.mixins import CachingLoaderMixin  # noqa: E402

CLOCK = clock.install()
ADDR_RE = re.compile(r" at 0x[0-9a-fA-F]+")

DATE_MAIN = ("D[{{ x | date: '%Y' }}|{{ ts | date: '%Y-%m-%d %H' }}|{{ 'now' | date: '%Y-%m-%d %H:%M:%S.%f' }}|"
             "{{ 'today' | date: '%j' }}|{{ dt | date: '%H:%M %z' }}|{{ dt2 | date: '%H:%M %z' }}|{{ now }}|{{ today }}|"
             "{{ s | date: '%Y' }}|{{ y | date: '%s' }}]")


def _filter_mains():
    """Three fixed templates that apply every registered filter once to a typical input: with the
    equal-but-differently-typed twins of the data (1 / 1.0 / True, str / Markup, equal instants in
    other zones) any filter that memoises on (value, argument) shows up as history dependence."""
    dflt = {"s": "'a'", "n": "2", "key": "'title'", "arr": "items", "fmt": "'%Y'", "any": "x", "allow_false": None}
    groups = {"str": [], "num": [], "arr": []}
    for name in sorted(G.FILTERS):
        kinds = [k for k in G.FILTERS[name] if not k.startswith("?")]
        args = [dflt[k] for k in kinds if dflt.get(k)]
        hint = G.FILTER_INPUT_HINT.get(name)
        if hint is G.NUMBER_IN or name in ("abs", "ceil", "floor", "round", "plus", "minus", "times", "modulo",
                                           "divided_by", "at_least", "at_most"):
            grp, inp = "num", "x"
        elif hint is G.ARRAY_IN or name in ("map", "where", "find", "find_index", "has", "reject", "compact", "uniq",
                                            "sum", "sort", "sort_natural", "concat", "join", "first", "last", "reverse"):
            grp, inp = "arr", ("objs" if "key" in kinds else "words")
        else:
            grp, inp = "str", "t"
        inp = {"sum": "items", "base64_decode": "t | base64_encode",
               "base64_url_safe_decode": "t | base64_url_safe_encode"}.get(name, inp)
        groups[grp].append("{{ %s | %s%s }}" % (inp, name, (": " + ", ".join(args)) if args else ""))
    groups["num"] += ["{{ y | round }}", "{{ tie | round: 2 }}", "{{ tie | round }}"]
    # number / currency / unit formatting (extra filters) of exact ties, in a template of its own:
    # rounding behaviour that some other filter changed for the whole process shows between renders
    groups["xfmt"] = ["{{ tie | money }}", "{{ tie | currency }}", "{{ tie | decimal }}", "{{ tie | unit: 'kilometer' }}",
                      "{{ tie | money_with_currency }}", "{{ tie | money_without_currency }}",
                      "{{ y | decimal }}", "{{ ts | datetime }}", "{{ tie | plus: 0.125 }}", "{{ tie | times: 3 }}",
                      "{{ tie | divided_by: 0.5 }}", "{{ items | sum }}",
                      # message translation against the caller's catalog (the `translations` variable)
                      "{{ 'Hello' | t }}", "{{ 'Hello' | gettext }}", "{{ 'one' | ngettext: 'many', 2 }}",
                      "{% translate %}Hi {{ you }}{% endtranslate %}"]
    return ["F%s[%s]" % (g, "|".join(v)) for g, v in sorted(groups.items())]


FILTER_MAINS = _filter_mains()

# parses that are rejected (aborted parses): whatever they leave behind in the environment, its
# memoised parser or the process must not change what later templates do
_DEEP = 31
BAD_MAINS = [
    "{% if true %}" * _DEEP + "x" + "{% endif %}" * _DEEP,                    # one level over the default nesting limit
    "{% for i in (1..2) %}" * 6 + "{{ i }}" + "{% endfor %}" * 6,              # over the small limits of some recipes
    "{% for i in items %}{{ i }",                                            # unclosed
    "{% if %}x{% endif %}", "{{ x | }}", "{% endfor %}", "{% unknown_tag %}", "{% if x %}{% else %}{% else %}{% endif %}",
    "{% liquid\nif true\nif true\necho 1\n%}",
    "{% capture %}x{% endcapture %}", "{% case %}{% endcase %}", "{{ 'unterminated }}",
]
DEEP_OK_MAINS = [
    "{% if true %}" * (_DEEP - 1) + "{{ x }}" + "{% endif %}" * (_DEEP - 1),   # exactly at the default limit
    "{% if true %}{% for i in (1..2) %}{% unless false %}{{ i }}{% endunless %}{% endfor %}{% endif %}",
    "{% if true %}{{ x }}{% endif %}",
]


class CachingSimLoader(CachingLoaderMixin, StaticSimLoader):
    def __init__(self, store, loop_ref, style, *, namespace_key, capacity, auto_reload):
        super().__init__(auto_reload=auto_reload, namespace_key=namespace_key, capacity=capacity)
        StaticSimLoader.__init__(self, store, loop_ref, style, matter=True, namespaced=bool(namespace_key))


class FailingDrop(SimDrop):
    """A drop that raises at its k-th access (an aborted render)."""

    def __init__(self, data, loop, label, fail_at):
        super().__init__(data, loop, label)
        self._n = 0
        self._fail_at = fail_at

    def _tick(self):
        self._n += 1
        if self._n == self._fail_at:
            raise ValueError("drop failed at access %d" % self._n)

    def __getitem__(self, k):
        self._tick()
        return super().__getitem__(k)

    async def __getitem_async__(self, k):
        if self._loop is not None:
            await self._loop.latency(self._label)
        self._tick()
        return self._wrap(self._d[k])


def make_data(spec, loop):
    d = build_data(spec, loop)
    fa = spec.get("fail_at")
    if fa and "drop" in spec["vars"]:
        d["drop"] = FailingDrop(dict(spec["vars"]["drop"]), loop, "drop.fail", fa)
    return d


# ---------------------------------------------------------------------------
# building an environment from its JSON spec (used by the history AND by the pristine fork)


class LazyMains:
    """Parse outcomes of an environment's main templates, each parsed when first asked for.  The
    history parses them all up front in index order; a reference parses exactly what its probe
    needs (a parse must not depend on which other templates the environment parsed before)."""

    def __init__(self, env, srcs):
        self.env = env
        self.srcs = srcs
        self.done = {}

    def __getitem__(self, i):
        if i not in self.done:
            self.done[i] = outcome(lambda: self.env.from_string(self.srcs[i], name="main%d" % i))
        return self.done[i]

    def __setitem__(self, i, v):
        self.done[i] = v


_OPEN_FS = []      # sandboxes of the worlds built since the last close_worlds()
PLAN = FaultPlan()  # storage fault plan of this process (only the history arms faults)


def close_worlds():
    while _OPEN_FS:
        _OPEN_FS.pop().close()


def build_world(es, loop_ref, lazy=False):
    # every named template ends by printing `tg`, an environment global that a request's own
    # globals (get_template(name, globals=...)) may override
    sources = {nm: (G.render_source(t) if not isinstance(t, str) else t) + "[{{ tg }}{{ m }}]"
               for nm, t in es["templates"].items()}
    kind = es["loader"]
    ns_key = es.get("ns_key") or ""
    kw = dict(auto_reload=es["auto_reload"], namespace_key=ns_key, capacity=es["capacity"])
    store = {("", nm): src for nm, src in sources.items()}
    if ns_key:      # every tenant has its own variant of every named template
        for ns in ("u1", "u2"):
            for nm, src in sources.items():
                store[(ns, nm)] = "<%s>%s" % (ns, src)
    if kind == "dict":
        ld = DictLoader(dict(sources))
    elif kind == "cdict":
        ld = CachingDictLoader(dict(sources), **kw)
    elif kind == "sim":
        ld = StaticSimLoader(store, loop_ref, "fs-like", matter=True, namespaced=bool(ns_key))
    elif kind == "csim":
        ld = CachingSimLoader(store, loop_ref, "fs-like", **kw)
    elif kind in ("cfs", "cchfs"):
        # templates on (simulated) disk; cchfs: in front of a dict loader that knows every name too,
        # with different text - a storage fault must never leave that fallback behind in the cache
        fs = SimFS()
        _OPEN_FS.append(fs)
        ext = es.get("ext")
        for i, (nm, src) in enumerate(sorted(sources.items())):
            rel = nm if "." in nm.rsplit("/", 1)[-1] or not ext else nm + ext
            fs.write("root/" + rel, src, i + 1)
        fs.mkdir("root")
        if kind == "cfs":
            ld = liquid.CachingFileSystemLoader(fs.path("root"), ext=ext, auto_reload=es["auto_reload"],
                                                capacity=es["capacity"])
        else:
            ld = CachingChoiceLoader([liquid.FileSystemLoader(fs.path("root"), ext=ext),
                                      DictLoader({nm: "FALLBACK:" + src for nm, src in sources.items()})],
                                     auto_reload=es["auto_reload"], capacity=es["capacity"])
    else:
        names = sorted(sources)
        rest = {k: v for k, v in store.items() if k[1] in names[1::2]}
        subs = [DictLoader({n: sources[n] for n in names[::2]}),
                StaticSimLoader(rest, loop_ref, "sync", namespaced=bool(ns_key))]
        if ns_key and es.get("overrides"):
            # per-tenant overrides in front of shared defaults: the first delegate only knows tenant u1's
            # variants (decided from the request's namespace / the render context), the second knows every name
            subs = [StaticSimLoader({k: v for k, v in store.items() if k[0] == "u1"}, loop_ref, "sync", namespaced=True),
                    DictLoader(dict(sources))]
        if es.get("factory"):
            ld = liquid.make_choice_loader(subs, auto_reload=es["auto_reload"], namespace_key=ns_key,
                                           cache_size=es["capacity"] if kind == "cchoice" else 0)
        else:
            ld = ChoiceLoader(subs) if kind == "choice" else CachingChoiceLoader(subs, **kw)
    env = G.build_env({**es["recipe"], "globals": {**es["recipe"]["globals"], "tg": "E", "m": ""}}, ld)
    main_src = [G.render_source(t) if not isinstance(t, str) else t for t in es["mains"]]
    if lazy:
        return env, LazyMains(env, main_src), main_src
    mains = [outcome(lambda s=s, i=i: env.from_string(s, name="main%d" % i)) for i, s in enumerate(main_src)]
    return env, mains, main_src


REENTER_SRC = ("{% for i in (1..2) %}{{ i }}-{{ re.x }}[{{ forloop.index }}/{{ forloop.length }}]"
               "{% cycle 'a', 'b' %}{% endfor %}{% increment c %}")


class ReDrop(Mapping):
    """User data that calls back into the library: looking up `x` renders the very template that is
    being rendered (with plain data, so the recursion stops there) and returns its output."""

    def __init__(self, template, loop=None):
        self._t = template
        self._loop = loop

    def __getitem__(self, k):
        if k != "x":
            raise KeyError(k)
        return self._t.render(re={"x": "in"})

    async def __getitem_async__(self, k):
        if k != "x":
            raise KeyError(k)
        if self._loop is not None:
            await self._loop.latency("redrop")
        return await self._t.render_async(re={"x": "in"})

    def __iter__(self):
        return iter(["x"])

    def __len__(self):
        return 1


REMOVABLE_TAGS = ["cycle", "increment", "echo", "capture", "ifchanged", "tablerow"]


def customise(env, removed):
    """The documented way to switch a tag off: delete it from the environment's tag register."""
    for name in removed:
        env.tags.pop(name, None)


def _nskw(op):
    return {NS_KEY: op["ns"]} if op.get("ns") is not None else {}


def get_target(env, mains, op):
    if "main" in op:
        t = mains[op["main"]]
        if t[0] == "err":
            raise type(t[1], (Exception,), {})()
        return t[1]
    return env.get_template(op["name"], globals=op.get("tglobals"), **_nskw(op))


async def get_target_async(env, mains, op):
    if "main" in op:
        t = mains[op["main"]]
        if t[0] == "err":
            raise type(t[1], (Exception,), {})()
        return t[1]
    return await env.get_template_async(op["name"], globals=op.get("tglobals"), **_nskw(op))


def norm(o):
    if isinstance(o, tuple):
        return tuple(norm(x) for x in o)
    if isinstance(o, str) and " at 0x" in o:
        return ADDR_RE.sub("", o)
    return o


def evaluate_probe(probe):
    if os.environ.get("VERIF_DEBUG") == "2":
        import cProfile
        import io
        import pstats
        import time
        pr = cProfile.Profile()
        t = time.time()
        pr.enable()
        r = _evaluate_probe(probe)
        pr.disable()
        if time.time() - t > 0.06:
            s = io.StringIO()
            pstats.Stats(pr, stream=s).sort_stats("tottime").print_stats(12)
            sys.stderr.write(s.getvalue())
        return r
    return _evaluate_probe(probe)


def _evaluate_probe(probe):
    try:
        return _evaluate_probe1(probe)
    finally:
        close_worlds()


def _evaluate_probe1(probe):
    """Runs in a grandchild of the pristine zygote: no history whatsoever."""
    warnings.simplefilter("ignore")
    if probe["kind"] == "variation":
        return _VARIATION(probe["sc"], probe["probes"])
    CLOCK.set(probe["clock"])
    if probe["kind"] == "implicit":
        data = make_data(probe["data"], None)
        return norm(outcome(lambda: liquid.Template(probe["source"], **probe["kwargs"]).render(**data)))
    loop_ref = [None]
    if probe["kind"] == "env_render":
        env, _, srcs = build_world(probe["env"], loop_ref, lazy=True)
        customise(env, probe["removed"])
        data = make_data(probe["data"], None)
        return norm(outcome(lambda: env.render(srcs[probe["op"]["main"]], **data)))
    if probe["mode"] == "sync":
        env, mains, _ = build_world(probe["env"], loop_ref, lazy=True)
        data = make_data(probe["data"], None)
        return norm(outcome(lambda: get_target(env, mains, probe["op"]).render(**data)))
    loop = SimLoop(Rng(0, ("ref",)), step_cap=400000, lat_profile={"max": 0.0, "zero_p": 1.0, "stall_p": 0.0})
    loop_ref[0] = loop
    env, mains, _ = build_world(probe["env"], loop_ref, lazy=True)
    data = make_data(probe["data"], loop)

    async def go():
        t = await get_target_async(env, mains, probe["op"])
        return await t.render_async(**data)
    return norm(loop.run_sim(outcome_async(go())))


# ---------------------------------------------------------------------------
# structural fingerprints of templates and environments

_PRIM = (str, int, float, bool, type(None), bytes)


def fp_obj(o, seen, depth=0):
    if isinstance(o, _PRIM):
        return (type(o).__name__, repr(o))
    if depth > 60:
        return ("deep",)
    if isinstance(o, (list, tuple)):
        return (type(o).__name__, tuple(fp_obj(x, seen, depth + 1) for x in o))
    if isinstance(o, dict):
        return ("dict", tuple((fp_obj(k, seen, depth + 1), fp_obj(v, seen, depth + 1)) for k, v in o.items()))
    if isinstance(o, (set, frozenset)):
        return ("set", tuple(sorted(repr(x) for x in o)))
    cls = type(o)
    mod = getattr(cls, "__module__", "") or ""
    if isinstance(o, (Environment, BoundTemplate)) or not mod.startswith("liquid") or callable(o):
        return ("obj", cls.__name__)
    if id(o) in seen:
        return ("ref", cls.__name__)
    seen.add(id(o))
    names = []
    for k in cls.__mro__:
        for s in getattr(k, "__slots__", ()) or ():
            if s not in names and s != "__weakref__" and s != "__dict__":
                names.append(s)
    for s in getattr(o, "__dict__", {}) or {}:
        if s not in names:
            names.append(s)
    out = []
    for n in names:
        try:
            v = getattr(o, n)
        except AttributeError:
            continue
        out.append((n, fp_obj(v, seen, depth + 1)))
    return (cls.__name__, tuple(out))


def fp_template(t):
    if not isinstance(t, BoundTemplate):
        return ("not-a-template", repr(type(t)))
    return digest(("T", t.name, str(t.path), fp_obj(t.nodes, set()), fingerprint(dict(t.globals)),
                   fingerprint(dict(t.matter)), t.uptodate is not None))


def fp_env(env):
    simple = tuple((k, repr(v)) for k, v in sorted(vars(env).items())
                   if isinstance(v, (str, int, float, bool, type(None))))
    cls_attrs = tuple((k, repr(getattr(env, k))) for k in G.FLAG_NAMES + ["loop_iteration_limit", "output_stream_limit",
                                                                          "local_namespace_limit", "context_depth_limit",
                                                                          "suppress_blank_control_flow_blocks"])
    return digest(("E", simple, cls_attrs, repr(env.mode), env.undefined.__name__,
                   tuple((k, type(v).__name__) for k, v in sorted(env.tags.items())),
                   tuple((k, getattr(v, "__qualname__", type(v).__name__)) for k, v in sorted(env.filters.items())),
                   fingerprint(dict(env.globals))))


# ---------------------------------------------------------------------------


class C17:
    PROP = "C17"
    LEVEL = "exploration"
    NO_PIN = True   # no baton threads here: let the OS scheduler place the workers
    RUN_S = 240   # watchdog allowance per run: every reference costs a (system-wide serialised) fork
    TIERS = {
        "quick": {"runs": 40000, "budget_s": 55, "chunk": 8, "determinism_runs": 24, "minimise_s": 40},
        "thorough": {"runs": 2000000, "budget_s": 1500, "chunk": 16, "determinism_runs": 128, "minimise_s": 240},
    }
    RULE = ("Each run is one seeded history: 1-3 environments (some with identical recipes), 1-3 templates each "
            "(generated trees incl. every stateful tag, plus a clock/date template), 2-5 data specs incl. "
            "equal-but-differently-typed twins and equal instants in different zones, 1-4 concurrent clients x 2-8 "
            "ops (sync render, render_async with suspensions, re-parse, implicit-environment render, clock advance, "
            "cancellation, failing drops). Every render is compared with the pristine-fork outcome of the same "
            "(recipe, sources, data, clock). Non-trivial = a render that follows >=1 other render sharing its "
            "environment, template, memo key or clock-dependent value; distinct = hash(scenario, interleaving signature).")
    STATE_MEASURE = "distinct (env recipe digest, template digest, data digest) probe keys sent to the pristine fork"
    COMPONENTS = {
        "real": ["all of liquid/ from /repo's working tree incl. module-level memo caches (get_lexer, get_parser, "
                 "get_implicit_environment, date filter)", "CPython asyncio Task/Future", "os.fork reference processes"],
        "stub": ["event loop + executor (SimLoop)", "wall clock (SimClock shim for datetime in liquid.context, "
                 "liquid.builtin.filters.misc, dateutil.parser)", "StaticSimLoader / SimDrop / FailingDrop"],
    }
    ASSUMPTIONS = [
        "the pristine fork starts from the state a fresh interpreter has right after `import liquid` (import-time state is not history)",
        "exceptions compare by class; memory addresses are blanked",
        "template sources are static (reloads from changed sources are carved out by the statement and are C23's subject)",
        "interleaving is explored at await granularity (asyncio), not OS threads",
    ]
    REQUIRED_REACH = ["reach.order_variation_compared", "reach.pristine_compared", "reach.render_after_same_template", "reach.render_after_same_env", "reach.clock_advanced_between",
                      "reach.twin_data", "reach.concurrent_same_template", "reach.aborted_render", "fault.cancel_landed",
                      "reach.tz_equal_instants", "reach.implicit_env", "reach.fp_checks", "fault.drop_failed",
                      "fault.fs_errno", "reach.environment_customised", "reach.burst", "reach.reentrant_render"]

    def process_init(self):
        fork.init_zygote(evaluate_probe)
        fork.init_companion(evaluate_probe)

    def trial_init(self):
        fork.init_companion(evaluate_probe)

    # -- generation ------------------------------------------------------------
    def gen(self, run_seed, tier):
        rng = Rng(run_seed, ("gen",))
        envs = []
        for e in range(rng.randint(1, 3)):
            if envs and rng.chance(0.4):
                recipe = dict(envs[0]["recipe"])
                if rng.chance(0.5):
                    f = rng.choice(G.FLAG_NAMES)
                    recipe["flags"] = {**recipe["flags"], f: not recipe["flags"][f]}
            else:
                recipe = G.gen_recipe(rng)
                recipe["autoescape"] = rng.chance(0.4)
            pnames = rng.sample(["p", "d/q.liquid", "r.html", "r.liquid"], rng.randint(1, 4))
            templates = {}
            for i, nm in enumerate(pnames):
                tg = G.TreeGen(rng, recipe["flags"], recipe["extra"], partials=pnames[i + 1:], drops=True,
                               template_comments=recipe["template_comments"], budget=rng.randint(2, 6), max_depth=1,
                               stateful_bias=2.0)
                templates[nm] = tg.template()
            mains = []
            for _ in range(rng.randint(1, 2)):
                tg = G.TreeGen(rng, recipe["flags"], recipe["extra"], partials=pnames, drops=True,
                               template_comments=recipe["template_comments"], budget=rng.randint(4, 18),
                               max_depth=rng.randint(1, 3), stateful_bias=2.5)
                mains.append(tg.template())
            if rng.chance(0.6):
                mains.append(DATE_MAIN)
            if rng.chance(0.6):
                mains.extend(FILTER_MAINS)
            if recipe["extra"] and rng.chance(0.5):
                # template inheritance reached through render / include, and a render from inside a
                # macro body: tags that restrict what a partial may do must not outlive the render
                inh, top = G.gen_inheritance(rng, recipe["flags"])
                templates.update(inh)
                first = pnames[0]
                for src in rng.sample([
                        "{%% render '%s' %%}" % top, "{%% include '%s' %%}" % top,
                        "{%% macro m %%}[{%% render '%s' %%}]{%% endmacro %%}{%% call m %%}" % first,
                        "{%% macro m, a %%}({{ a }}{%% render '%s' %%}){%% endmacro %%}{%% call m, 1 %%}{%% call m, a: 2 %%}" % top,
                        "{%% with a: 1 %%}{%% render '%s' %%}{%% endwith %%}" % top,
                        "{%% for i in (1..2) %%}{%% render '%s' %%}{%% endfor %%}" % first], rng.randint(2, 4)):
                    mains.insert(rng.randint(0, len(mains)), src)
            if rng.chance(0.3):
                for _ in range(rng.randint(1, 2)):
                    mains.insert(rng.randint(0, len(mains)), rng.choice(BAD_MAINS))
                mains.insert(rng.randint(0, len(mains)), rng.choice(DEEP_OK_MAINS))
            lkind = rng.choice(["dict", "cdict", "sim", "csim", "choice", "cchoice", "cfs", "cchfs"])
            envs.append({"recipe": recipe, "loader": lkind,
                         "ns_key": NS_KEY if lkind in ("sim", "csim", "choice", "cchoice") and rng.chance(0.4) else "",
                         "factory": rng.chance(0.3), "ext": rng.choice([None, ".liquid"]), "overrides": rng.chance(0.5),
                         "capacity": rng.choice([1, 2, 300]), "auto_reload": rng.chance(0.7),
                         "templates": templates, "mains": mains})
        datas = []
        for _ in range(rng.randint(1, 3)):
            d = G.gen_data(rng, drops=True)
            d["special"] = self._special(rng)
            if rng.chance(0.4):
                d["vars"][NS_KEY] = rng.choice(["u1", "u2"])    # the tenant, as a render argument (partials see it)
            if rng.chance(0.15) and "drop" in d["vars"]:
                d["fail_at"] = rng.randint(1, 4)
            datas.append(d)
            if rng.chance(0.7):
                datas.append(self._twin(rng, d))
        uid = [0]
        with_tglobals = rng.chance(0.4)

        def gen_op():
            uid[0] += 1
            k = rng.weighted([("render", 14), ("advance", 3), ("reparse", 1.5), ("implicit", 1.5), ("env_render", 2),
                              ("customise", 0.7), ("burst", 0.5), ("reenter", 0.6)])
            op = {"op": k, "uid": uid[0]}
            if k == "advance":
                op["us"] = rng.choice([1, 999_999, 1_000_000, 61_000_000, 3_600_000_000, 86_400_000_000,
                                       31_536_000_000_000, -86_400_000_000])
                return op
            e = rng.randrange(len(envs))
            op["env"] = e
            if k == "customise":
                if envs[e]["loader"] not in ("dict", "sim", "choice"):
                    # a caching loader keeps partials it parsed before the change: not comparable
                    k = op["op"] = "env_render"
                else:
                    op["remove"] = rng.choice(REMOVABLE_TAGS)
                    return op
            if k == "env_render":
                op["data"] = rng.randrange(len(datas))
                op["main"] = rng.randrange(len(envs[e]["mains"]))
                return op
            if k == "reenter":
                op["mode"] = rng.choice(["sync", "async"])
                return op
            if k == "burst":
                # a burst of requests: many render_async of one template in flight at the same time
                op["data"] = rng.randrange(len(datas))
                op["main"] = rng.randrange(len(envs[e]["mains"]))
                op["n"] = rng.choice([8, 33, 40])
                return op
            if k == "implicit":
                op["data"] = rng.randrange(len(datas))
                op["main"] = rng.randrange(len(envs[e]["mains"]))
                op["kwargs"] = rng.choice([{}, {}, {"autoescape": True}, {"strict_filters": False},
                                           {"globals": {"g": "IG"}}, {"extra": True}])
                return op
            if k == "reparse":
                op["main"] = rng.randrange(len(envs[e]["mains"]))
                return op
            op["data"] = rng.randrange(len(datas))
            if rng.chance(0.55 if with_tglobals else 0.8):
                op["main"] = rng.randrange(len(envs[e]["mains"]))
            else:
                op["name"] = rng.choice(list(envs[e]["templates"]))
            op["mode"] = rng.choice(["sync", "async"])
            if "name" in op and envs[e]["ns_key"]:
                op["ns"] = rng.choice([None, "u1", "u2", "u1"])     # the tenant this request is for
            if with_tglobals and "name" in op:
                # request globals on a (possibly cached, shared) template: a render captures the
                # template's globals in the same step in which its request returns (sync: one call;
                # async: no suspension between the two awaits), so no other request can re-assign
                # them in between
                op["tglobals"] = rng.choice([None, None, {"tg": "T1"}, {"tg": "T2", "site": "TS"}, {},
                                             {"tg": 1}, {"tg": 1.0}, {"tg": True}])   # equal, differently typed
            op["fp"] = rng.chance(0.5)
            if envs[e]["loader"] in ("cfs", "cchfs") and rng.chance(0.2):
                # a transient storage error at the k-th storage call of this render (EMFILE, EIO, ...):
                # the render may fail; what follows must behave as if it had never happened
                op["fs_fault"] = {"at": rng.randint(1, 6), "kind": rng.choice(["open", "stat", "any"]),
                                  "errno": rng.choice(["EMFILE", "EIO", "EACCES"])}
            if rng.chance(0.3):
                op["call"] = "positional"
            if op["mode"] == "async" and rng.chance(0.12):
                op["cancel_after"] = round(rng.random() * 0.01, 5)
            return op

        clients = [{"id": c, "ops": [gen_op() for _ in range(rng.randint(2, 9))]} for c in range(rng.randint(1, 4))]
        # equal-but-differently-typed pairs back to back: a render is followed (not necessarily
        # immediately) by the same template with the twin of its data
        twin_of = {}
        for j, d in enumerate(datas):
            if d.get("twin"):
                twin_of[j - 1] = j
                twin_of[j] = j - 1
        for c in clients:
            extra = []
            for op in c["ops"]:
                extra.append(op)
                if op["op"] == "render" and op["data"] in twin_of and rng.chance(0.35):
                    uid[0] += 1
                    extra.append({**{k: v for k, v in op.items() if k != "cancel_after"}, "uid": uid[0],
                                  "data": twin_of[op["data"]], "mode": rng.choice(["sync", "async"])})
            c["ops"] = extra
        return {"envs": envs, "datas": datas, "clients": clients, "sched_seed": rng.randrange(1 << 30),
                "pristine_p": 0.15, "pristine_max": 3,
                "lat": {"max": 0.01, "zero_p": rng.choice([0.1, 0.4]), "stall_p": 0.0}}

    def _special(self, rng):
        sp = self._special_dt(rng)
        if rng.chance(0.25):
            sp["translations"] = ["nulltrans"]
        return sp

    def _special_dt(self, rng):
        base = [2024, 3, 5, rng.choice([0, 10, 23]), rng.choice([0, 30]), 0]
        kind = rng.choice(["dtz", "dtz", "dt", "date"])
        if kind == "dtz":
            return {"dt": ["dtz", base, rng.choice([0, 5, -8])], "dt2": ["dtz", base, rng.choice([0, 5, -8, 1])]}
        if kind == "dt":
            return {"dt": ["dt", base], "dt2": ["dtz", base, 0]}
        return {"dt": ["date", base[:3]], "dt2": ["dt", base[:3] + [0, 0, 0]]}

    def _twin(self, rng, d):
        """Same data with some values replaced by equal-but-differently-typed ones."""
        def tw(v):
            if isinstance(v, bool):
                return int(v) if rng.chance(0.5) else float(v)
            if isinstance(v, int):
                if v in (0, 1) and rng.chance(0.5):
                    return bool(v)
                return float(v)
            if isinstance(v, float) and v == int(v):
                return int(v)
            if isinstance(v, str) and v and rng.chance(0.5):
                return {"__markup__": v}       # Markup(v) == v, same hash: trusted vs untrusted text
            if isinstance(v, list):
                return [tw(x) for x in v]
            if isinstance(v, dict):
                return {k: tw(x) for k, x in v.items()}
            return v
        out = {"vars": {k: tw(v) for k, v in d["vars"].items()}, "drops": list(d["drops"]), "twin": True}
        if d.get("seqtypes"):
            out["seqtypes"] = dict(d["seqtypes"])
        sp = d.get("special", {})
        if "dt" in sp and sp["dt"][0] == "dtz":
            out["special"] = {**sp, "dt": ["dtz", sp["dt"][1], rng.choice([0, 5, -8, 3])], "dt2": sp["dt2"]}
        else:
            out["special"] = sp
        return out

    # -- execution ---------------------------------------------------------------
    def run(self, sc):
        # The worker itself never renders anything.  (A) the history runs in a fork of it, so
        # module-level state accumulated by one run cannot leak into the next; (B) the same
        # renders run again, one at a time and in REVERSED order, in a second fork - a render
        # whose outcome depends on what ran before it differs between A and B; (C) a sample of
        # the renders is also compared with the pristine fork (no history at all), which catches
        # dependence that happens to be symmetric under reordering.
        # (A) runs in THIS process.  State the code under test leaves behind in the process
        # therefore carries over to the next history of this worker; the driver records each
        # worker's history and replays / minimises a violation that needs it with that prelude.
        # (B) and (C) run in fresh children of the pristine zygote, which never renders anything:
        # the first probe B evaluates (the history's last) is thereby a pristine evaluation too.
        res = self._run_here(sc)
        probes = res.pop("probes")
        st = res["stats"]
        if res["violations"] or not probes:
            return res
        viol = res["violations"]
        zy = fork.zygote()
        var = fork.companion().ask({"kind": "variation", "sc": sc, "probes": probes})
        bump(st, "variation_batches")
        for p in probes:
            want = tuple(var[p["uid"]])
            got = tuple(p["got"])
            bump(st, "reach.order_variation_compared")
            if got != want:
                kind = "output" if got[0] == want[0] == "ok" else "%s->%s" % (
                    want[1] if want[0] == "err" else "ok", got[1] if got[0] == "err" else "ok")
                viol.append({"oracle": "history-independence", "sig": "order:%s:%s" % (p["mode"], kind),
                             "detail": {"op": p["op"], "in_history": _brief(got), "alone_in_reversed_order": _brief(want),
                                        "clock_us": p["clock"], "position_in_history": p["pos"]}})
                break
        if viol:
            return res
        f0 = zy.forks
        rng = Rng(sc["sched_seed"], ("pristine-sample",))
        # (C) one probe of some histories in a process with no history at all
        chosen = [rng.choice(probes)] if rng.chance(sc.get("pristine_p", 0.15)) else []
        for p in chosen:
            want = tuple(self._pristine(zy, sc, p, res))
            got = tuple(p["got"])
            bump(st, "reach.pristine_compared")
            if got != want:
                kind = "output" if got[0] == want[0] == "ok" else "%s->%s" % (
                    want[1] if want[0] == "err" else "ok", got[1] if got[0] == "err" else "ok")
                viol.append({"oracle": "history-independence", "sig": "history:%s:%s" % (p["mode"], kind),
                             "detail": {"op": p["op"], "pristine": _brief(want), "in_history": _brief(got),
                                        "clock_us": p["clock"], "position_in_history": p["pos"]}})
                break
        bump(st, "reference_forks", zy.forks - f0)
        return res

    def _pristine(self, zy, sc, p, res):
        op = p["op"]
        dspec = sc["datas"][op["data"]]
        e = op["env"]
        if op["op"] == "implicit":
            src = sc["envs"][e]["mains"][op["main"]]
            src = src if isinstance(src, str) else G.render_source(src)
            probe = {"kind": "implicit", "source": src, "kwargs": op["kwargs"], "data": dspec, "clock": p["clock"]}
            key = digest(("imp", src, op["kwargs"], dspec, p["clock"]))
        elif op["op"] == "env_render":
            probe = {"kind": "env_render", "env": sc["envs"][e], "op": {"main": op["main"]}, "data": dspec,
                     "clock": p["clock"], "removed": p["removed"]}
            key = digest(("er", sc["envs"][e], op["main"], dspec, p["clock"], p["removed"]))
        else:
            tgt = {k: op[k] for k in ("main", "name", "tglobals", "ns") if k in op}
            probe = {"kind": "render", "env": sc["envs"][e], "op": tgt, "data": dspec, "clock": p["clock"],
                     "mode": p["mode"]}
            key = digest(("r", sc["envs"][e], tgt, dspec, p["clock"], p["mode"]))
        res["states"].append(int(key[:12], 16))
        return zy.ask(key, probe)

    def _run_variation(self, sc, probes):
        """The probes of a history, alone and in reversed order, in a fresh fork of the worker."""
        warnings.simplefilter("ignore")
        loop = SimLoop(Rng(0, ("var",)), step_cap=800000, lat_profile={"max": 0.0, "zero_p": 1.0, "stall_p": 0.0})
        loop_ref = [loop]
        worlds = [build_world(es, loop_ref, lazy=True) for es in sc["envs"]]
        custom_worlds = {}
        out = {}

        async def root():
            for p in reversed(probes):
                op = p["op"]
                CLOCK.set(p["clock"])
                e = op["env"]
                env, mains, srcs = worlds[e]
                dspec = sc["datas"][op["data"]]
                if op["op"] == "implicit":
                    data = make_data(dspec, None)
                    out[p["uid"]] = norm(outcome(lambda: liquid.Template(srcs[op["main"]], **op["kwargs"]).render(**data)))
                elif op["op"] == "env_render":
                    wkey = (e, tuple(p["removed"]))
                    if wkey not in custom_worlds:
                        w2 = build_world(sc["envs"][e], loop_ref, lazy=True)
                        customise(w2[0], p["removed"])
                        custom_worlds[wkey] = w2
                    env2, _, srcs2 = custom_worlds[wkey]
                    data = make_data(dspec, None)
                    out[p["uid"]] = norm(outcome(lambda: env2.render(srcs2[op["main"]], **data)))
                elif p["mode"] == "sync":
                    data = make_data(dspec, None)
                    out[p["uid"]] = norm(outcome(lambda: get_target(env, mains, op).render(**data)))
                else:
                    data = make_data(dspec, loop)

                    async def go():
                        t = await get_target_async(env, mains, op)
                        return await t.render_async(**data)
                    out[p["uid"]] = norm(await outcome_async(go()))
        try:
            loop.run_sim(root())
        finally:
            close_worlds()
        return out

    def _run_here(self, sc):
        res = new_result()
        res["probes"] = []
        saved_path = fsl_mod.Path
        fsl_mod.Path = FaultyPath
        FaultyPath.plan = PLAN
        PLAN.faults, PLAN.actions = [], []
        try:
            with warnings.catch_warnings():
                warnings.simplefilter("ignore")
                CLOCK.set(clock.EPOCH_US)
                self._run_world(sc, res)
        finally:
            fsl_mod.Path = saved_path
            FaultyPath.plan = None
            close_worlds()
        seen, out = set(), []
        for v in res["violations"]:
            if v["sig"] not in seen:
                seen.add(v["sig"])
                out.append(v)
        res["violations"] = out
        return res

    def _run_world(self, sc, res):
        st = res["stats"]
        viol = res["violations"]
        probes = res["probes"]
        loop = SimLoop(Rng(sc["sched_seed"], ("sched",)), step_cap=400000, lat_profile=sc["lat"])
        loop_ref = [loop]
        worlds = [build_world(es, loop_ref) for es in sc["envs"]]
        env_fp0 = [fp_env(w[0]) for w in worlds]
        removed = [[] for _ in worlds]     # tags the application has switched off, per environment
        clock_moves = [0]                  # how often the wall clock was moved (forwards or backwards)
        rendered = []          # (env index, target key, data index, clock)
        in_flight = {}
        history = []
        nontrivial = [0]

        def add(oracle, sig, detail):
            viol.append({"oracle": oracle, "sig": sig, "detail": detail})

        def sensitive(es):
            for s in list(es["mains"]) + list(es["templates"].values()):
                txt = s if isinstance(s, str) else G.render_source(s)
                if "now" in txt or "today" in txt or "date" in txt:
                    return True
            return False
        sens = [sensitive(es) for es in sc["envs"]]

        def note_context(op, e, tkey):
            same_t = any(r[0] == e and r[1] == tkey for r in rendered)
            same_e = any(r[0] == e for r in rendered)
            if same_t:
                bump(st, "reach.render_after_same_template")
            if same_e:
                bump(st, "reach.render_after_same_env")
            if rendered and rendered[-1][3] != CLOCK.us:
                bump(st, "reach.clock_advanced_between")
            if any(r[1] == tkey and r[2] != op.get("data") and sc["datas"][op["data"]].get("twin") for r in rendered):
                bump(st, "reach.twin_data")
            if rendered:
                nontrivial[0] += 1
            if tkey in in_flight.values():
                bump(st, "reach.concurrent_same_template")

        async def do_render(me, op):
            e = op["env"]
            env, mains, _ = worlds[e]
            dspec = sc["datas"][op["data"]]
            tkey = (e, "main", op["main"]) if "main" in op else (e, "name", op["name"])
            note_context(op, e, tkey)
            sp = dspec.get("special", {})
            if sp.get("dt", [""])[0] == "dtz" and sp.get("dt2", [""])[0] == "dtz" and sp["dt"][2] != sp["dt2"][2]:
                bump(st, "reach.tz_equal_instants")
            mode = op["mode"]
            data = make_data(dspec, loop if mode == "async" else None)
            fp_d0 = {k: fingerprint(v) for k, v in data.items()}
            tmpl0 = None
            if op.get("fp"):
                t = mains[op["main"]] if "main" in op else None
                if t and t[0] == "ok":
                    tmpl0 = (t[1], fp_template(t[1]))
                bump(st, "reach.fp_checks")
            inv = loop.event("render.invoke")
            clock_at_invoke = CLOCK.us
            moves_at_invoke = clock_moves[0]
            cancelled = False
            nfired0 = len(PLAN.fired)
            if op.get("fs_fault"):
                f = dict(op["fs_fault"])
                f["at"] = PLAN.calls + f["at"]
                PLAN.faults.append(f)
            if mode == "sync":
                if op.get("call") == "positional":     # render(data): ONE positional dict, no keyword arguments
                    got = outcome(lambda: get_target(env, mains, op).render(data))
                else:
                    got = outcome(lambda: get_target(env, mains, op).render(**data))
            else:
                in_flight[me] = tkey

                async def go():
                    t = await get_target_async(env, mains, op)
                    if op.get("call") == "positional":
                        return await t.render_async(data)
                    return await t.render_async(**data)
                try:
                    if op.get("cancel_after") is not None:
                        sub = loop.create_task(outcome_async(go()), name="%s.r%d" % (me, op["uid"]))
                        loop.streams[sub.get_name()] = loop.rng.fork("op", op["uid"], "sub")
                        h = loop.call_later(op["cancel_after"], sub.cancel)
                        try:
                            got = await sub
                        except asyncio.CancelledError:
                            if not sub.cancelled():
                                raise
                            cancelled = True
                            got = ("cancelled",)
                        h.cancel()
                    else:
                        got = await outcome_async(go())
                finally:
                    del in_flight[me]
            ret = loop.event("render.return")
            got = norm(got)
            rendered.append((e, tkey, op["data"], clock_at_invoke))
            history.append([op["uid"], inv, ret, got[0], got[1] if len(got) > 1 and got[0] == "err" else digest(got)])
            # oracle 1: data immutability (also after aborted / cancelled renders)
            fp_d1 = {k: fingerprint(v) for k, v in data.items()}
            if fp_d1 != fp_d0:
                changed = sorted(k for k in set(fp_d0) | set(fp_d1) if fp_d0.get(k) != fp_d1.get(k))
                add("data-immutability", "data-mutated:%s" % ",".join(changed),
                    {"op": op, "changed": {k: [_brief(fp_d0.get(k)), _brief(fp_d1.get(k))] for k in changed}})
            # oracle 2: template / environment immutability
            if tmpl0 is not None and fp_template(tmpl0[0]) != tmpl0[1]:
                add("template-immutability", "template-mutated", {"op": op})
            if op.get("fp") and fp_env(env) != env_fp0[e]:
                add("template-immutability", "environment-mutated", {"op": op})
            if cancelled:
                bump(st, "fault.cancel_landed")
                return
            fired = [f for f in PLAN.fired[nfired0:] if f[0] != "action"]
            PLAN.faults = []
            if fired:
                # an injected storage error hit this render: it may fail or fall back - not compared;
                # every later render is
                bump(st, "fault.fs_errno")
                return
            if got[0] == "err":
                bump(st, "reach.aborted_render")
                if dspec.get("fail_at") and got[1] == "ValueError":
                    bump(st, "fault.drop_failed")
            # oracle 3+4: history / interleaving independence
            if clock_moves[0] != moves_at_invoke and sens[e]:      # (a counter: +1 day then -1 day is a move too)
                bump(st, "relaxed.clock_moved_during_render")   # another client advanced the clock mid-render
                return
            if removed[e]:
                # parsed (or cached by its loader) before the tag was switched off: not comparable with a
                # reference that parses under the final configuration
                bump(st, "relaxed.parsed_before_customisation")
                return
            probes.append({"uid": op["uid"], "op": op, "mode": mode, "clock": clock_at_invoke, "got": got,
                           "pos": len(probes)})

        async def client(c):
            me = "c%d" % c["id"]
            for op in c["ops"]:
                loop.streams[me] = loop.rng.fork("op", op["uid"])
                await loop.latency("think")
                k = op["op"]
                bump(st, "op." + k)
                if k == "advance":
                    CLOCK.advance(op["us"])
                    clock_moves[0] += 1
                    loop.event("clock.advance")
                elif k == "customise":
                    # the application switches a tag off (documented: delete it from env.tags); from now
                    # on only operations that parse at call time are compared for this environment
                    e = op["env"]
                    customise(worlds[e][0], [op["remove"]])
                    removed[e] = removed[e] + [op["remove"]]
                    env_fp0[e] = fp_env(worlds[e][0])
                    bump(st, "reach.environment_customised")
                elif k == "reenter":
                    # re-entrancy: a drop used inside a loop body renders the same parsed template again
                    e = op["env"]
                    env = worlds[e][0]
                    t = outcome(lambda: env.from_string(REENTER_SRC, name="reenter"))
                    if t[0] != "ok" or removed[e]:
                        continue
                    if op["mode"] == "sync":
                        inner = outcome(lambda: t[1].render(re={"x": "in"}))
                        want = outcome(lambda: t[1].render(re={"x": inner[1]})) if inner[0] == "ok" else inner
                        got = outcome(lambda: t[1].render(re=ReDrop(t[1])))
                    else:
                        inner = await outcome_async(t[1].render_async(re={"x": "in"}))
                        want = (await outcome_async(t[1].render_async(re={"x": inner[1]}))) if inner[0] == "ok" else inner
                        got = await outcome_async(t[1].render_async(re=ReDrop(t[1], loop)))
                    bump(st, "reach.reentrant_render")
                    history.append([op["uid"], "reenter", got[0]])
                    if inner[0] == "ok" and norm(got) != norm(want):
                        add("history-independence", "reentrancy:%s" % ("output" if got[0] == "ok" else got[1]),
                            {"op": op, "with_reentrant_drop": _brief(got), "with_its_value_precomputed": _brief(want)})
                        return
                elif k == "burst":
                    e = op["env"]
                    env, mains, _ = worlds[e]
                    t = mains[op["main"]]
                    if t[0] != "ok" or removed[e]:
                        continue
                    dspec = sc["datas"][op["data"]]
                    clock0 = CLOCK.us
                    moves0 = clock_moves[0]
                    removed0 = list(removed[e])
                    nfb0 = len(PLAN.fired)

                    async def one(j):
                        loop.streams[asyncio.current_task().get_name()] = loop.rng.fork("burst", op["uid"], j)
                        await loop.latency("burst.start")     # every member suspends at least once while the others start
                        return await outcome_async(t[1].render_async(**make_data(dspec, loop)))
                    outs = await asyncio.gather(*[loop.create_task(one(j), name="%s.b%d.%d" % (me, op["uid"], j))
                                                  for j in range(op["n"])])
                    bump(st, "reach.burst")
                    if (clock_moves[0] != moves0 and sens[e]) or removed[e] != removed0 or len(PLAN.fired) != nfb0:
                        continue      # the clock moved / the environment was re-configured / a storage fault armed
                        # by another caller landed while the burst was in flight
                    # all members rendered the same template with the same data: one probe, and they must agree
                    outs = [norm(o) for o in outs]
                    if any(o != outs[0] for o in outs):
                        odd = next(o for o in outs if o != outs[0])
                        add("history-independence", "burst:members-differ",
                            {"op": op, "first": _brief(outs[0]), "other": _brief(odd)})
                        return
                    history.append([op["uid"], "burst", op["n"], outs[0][0]])
                    probes.append({"uid": op["uid"], "op": {**op, "op": "render", "mode": "async"}, "mode": "async",
                                   "clock": clock0, "got": outs[0], "pos": len(probes)})
                elif k == "env_render":
                    e = op["env"]
                    env, _, srcs = worlds[e]
                    dspec = sc["datas"][op["data"]]
                    data = make_data(dspec, None)
                    nf0 = len(PLAN.fired)
                    got = norm(outcome(lambda: env.render(srcs[op["main"]], **data)))
                    history.append([op["uid"], "env_render", got[0], got[1] if got[0] == "err" else digest(got[1])])
                    if len(PLAN.fired) != nf0:
                        bump(st, "fault.fs_errno")      # a storage fault armed by a suspended render landed here
                        continue
                    probes.append({"uid": op["uid"], "op": op, "mode": "env_render", "clock": CLOCK.us, "got": got,
                                   "pos": len(probes), "removed": list(removed[e])})
                elif k == "reparse":
                    env, mains, srcs = worlds[op["env"]]
                    i = op["main"]
                    mains[i] = outcome(lambda: env.from_string(srcs[i], name="main%d" % i))
                elif k == "implicit":
                    e = op["env"]
                    dspec = sc["datas"][op["data"]]
                    data = make_data(dspec, None)
                    fp0 = fingerprint(data)
                    bump(st, "reach.implicit_env")
                    got = norm(outcome(lambda: liquid.Template(worlds[e][2][op["main"]], **op["kwargs"]).render(**data)))
                    if fingerprint(data) != fp0:
                        add("data-immutability", "data-mutated:implicit", {"op": op})
                    history.append([op["uid"], "implicit", got[0]])
                    probes.append({"uid": op["uid"], "op": op, "mode": "implicit", "clock": CLOCK.us, "got": got,
                                   "pos": len(probes)})
                else:
                    await do_render(me, op)
                if viol:
                    return

        async def root():
            ts = [loop.create_task(client(c), name="c%d" % c["id"]) for c in sc["clients"] if c["ops"]]
            if ts:
                await asyncio.gather(*ts)

        try:
            loop.run_sim(root())
        except SimDeadlock:
            add("liveness", "liveness:deadlock", {"log_tail": loop.log[-10:]})
        except SimStepCap:
            raise RuntimeError("HARNESS-TIMEOUT: SimLoop step cap")
        bump(st, "suspensions", loop.suspensions)
        res["sim_time"] = loop.time()
        res["steps"] = loop.steps
        res["isig"] = loop.interleaving_signature()
        res["digest"] = digest((loop.log, history))
        res["nontrivial"] = nontrivial[0] > 0

    # -- minimisation ------------------------------------------------------------
    def _compact(self, sc):
        """Drop environments, main templates and data specs no operation refers to (re-indexing)."""
        ops = [op for c in sc["clients"] for op in c["ops"]]
        used_e = sorted({op["env"] for op in ops if "env" in op})
        used_d = sorted({op["data"] for op in ops if "data" in op})
        emap = {e: i for i, e in enumerate(used_e)}
        dmap = {d: i for i, d in enumerate(used_d)}
        envs = []
        mmaps = {}
        for e in used_e:
            es = sc["envs"][e]
            used_m = sorted({op["main"] for op in ops if op.get("env") == e and "main" in op})
            mmaps[e] = {m: i for i, m in enumerate(used_m)}
            envs.append({**es, "mains": [es["mains"][m] for m in used_m]})

        def fix(op):
            op = dict(op)
            if "env" in op:
                e = op["env"]
                if "main" in op:
                    op["main"] = mmaps[e][op["main"]]
                op["env"] = emap[e]
            if "data" in op:
                op["data"] = dmap[op["data"]]
            return op
        out = {**sc, "envs": envs, "datas": [sc["datas"][d] for d in used_d],
               "clients": [{**c, "ops": [fix(op) for op in c["ops"]]} for c in sc["clients"]]}
        return out

    def shrink(self, sc):
        cl = sc["clients"]
        comp = self._compact(sc)
        if len(comp["envs"]) < len(sc["envs"]) or len(comp["datas"]) < len(sc["datas"]) or \
                sum(len(e["mains"]) for e in comp["envs"]) < sum(len(e["mains"]) for e in sc["envs"]):
            yield comp
        for i in range(len(cl)):
            if len(cl) > 1:
                yield {**sc, "clients": cl[:i] + cl[i + 1:]}
        for i, c in enumerate(cl):
            for cand in shrink_list(c["ops"]):
                yield {**sc, "clients": cl[:i] + [{**c, "ops": cand}] + cl[i + 1:]}
        if len(cl) > 1:
            ops = sorted((op for c in cl for op in c["ops"]), key=lambda o: o["uid"])
            yield {**sc, "clients": [{"id": 0, "ops": ops}]}
        for e, es in enumerate(sc["envs"]):
            used = sorted({op["main"] for c in cl for op in c["ops"] if op.get("env") == e and "main" in op})
            for m in used:
                if isinstance(es["mains"][m], str):
                    continue
                for t in G.shrink_tree(es["mains"][m]):
                    ne = {**es, "mains": es["mains"][:m] + [t] + es["mains"][m + 1:]}
                    yield {**sc, "envs": sc["envs"][:e] + [ne] + sc["envs"][e + 1:]}
            for nm in sorted(es["templates"]):
                for t in G.shrink_tree(es["templates"][nm]):
                    ne = {**es, "templates": {**es["templates"], nm: t}}
                    yield {**sc, "envs": sc["envs"][:e] + [ne] + sc["envs"][e + 1:]}
            if es["loader"] != "dict":
                yield {**sc, "envs": sc["envs"][:e] + [{**es, "loader": "dict"}] + sc["envs"][e + 1:]}
        for j, d in enumerate(sc["datas"]):
            for key in sorted(d["vars"]):
                nv = {k: v for k, v in d["vars"].items() if k != key}
                nd = {**d, "vars": nv, "drops": [x for x in d["drops"] if x != key]}
                yield {**sc, "datas": sc["datas"][:j] + [nd] + sc["datas"][j + 1:]}
            if d["drops"]:
                yield {**sc, "datas": sc["datas"][:j] + [{**d, "drops": []}] + sc["datas"][j + 1:]}
        if sc["lat"]["zero_p"] != 1.0:
            yield {**sc, "lat": {**sc["lat"], "zero_p": 1.0}}
        for i, c in enumerate(cl):
            for j, op in enumerate(c["ops"]):
                for s in self._simpler(op):
                    yield {**sc, "clients": cl[:i] + [{**c, "ops": c["ops"][:j] + [s] + c["ops"][j + 1:]}] + cl[i + 1:]}

    def _simpler(self, op):
        if op.get("cancel_after") is not None:
            yield {k: v for k, v in op.items() if k != "cancel_after"}
        if op.get("mode") == "async":
            yield {**op, "mode": "sync"}
        if op.get("fp"):
            yield {**op, "fp": False}


def _brief(o):
    s = repr(o)
    return s if len(s) < 900 else s[:900] + "..."


_VARIATION = C17()._run_variation


if __name__ == "__main__":
    sys.exit(driver.main(C17()))
